"""C03 - loading builds exactly the documented object, through every entry point."""
import io, os, shutil, tempfile

from ..driver import SKIP
from ..lib import S
from .. import gen_simfile as G

ID = "C03"
N_QUICK, N_THOROUGH = 1200, 60000
RULE = ("texts assembled from a grammar of parameters (known/unknown keys in any case, duplicates, key-only, multi-component, after NOTES/NOTEDATA), "
        "stray text, missing semicolons, comments, BOM, LF/CRLF; metacharacter soup; mutations/truncations/splices of the corpus files; x strict x entry "
        "points {loads, load(StringIO), load(iterator), load(open file *.sm *.ssc *.SM *.txt *.sm.bak dotless, names that are only dots and an extension (.sm, ..SM) or have further dots (Mr. Saturn.sm, v1.2.ssc, a.ssc.sm)), open(filename), class constructors "
        "string=/file=, SSCChart.from_str, SMChart.from_str/from_msd}; msdparser's own parameter list fed to the model's loader; non-trivial = text "
        "yields at least two parameters")
assumptions = ["msdparser's 4096-character chunking is transparent for the generated texts; corpus mutations > 4096 characters test that assumption",
               "open(filename) reads with universal newlines: the model is given the newline-translated text for that entry point"]
extra_trusted = ["msdparser 2.0.0 tokenizer is the trusted base the rules are applied to; Model/Msd.v is additionally compared with it token for token"]

NAMES = ["a.sm", "a.ssc", "A.SM", "a.txt", "a.sm.bak", "noext", "b.SsC", "sm", ".sm", ".ssc", "..SM", "Mr. Saturn.sm", "v1.2.ssc", "a.ssc.sm"]
_tmp = None


def tmpdir():
    global _tmp
    if _tmp is None:
        _tmp = tempfile.mkdtemp(prefix="verif_c03_")
        import atexit
        atexit.register(lambda: shutil.rmtree(_tmp, ignore_errors=True))
    return _tmp


def corpus():
    out = []
    for strict in (True, False):
        for i, (f, t) in enumerate(G.corpus_files()):
            out.append({"t": ["corpus", i, 0], "strict": strict, "names": ["a.txt", "a.sm", "a.ssc"]})
        for t in ("", "#TITLE;", "#ATTACKS;", "junk #TITLE:a;", "#TITLE:a;junk", "﻿#TITLE:a;", "﻿\n#TITLE:a;", "#A:1\n#B:2;",
                  "#title:x;#TITLE:y;#Artist:z;", "#VERSION:0.83;#NOTEDATA:;#CHARTNAME;#NOTES:0;#AFTER:1;#NOTEDATA:;#notes2:1;",
                  "#version:1;#TITLE:x;", "#NOTES:a:b:c;", "#NOTES:a:b:c:d:e:f:g:h;", "#DISPLAYBPM:1:2:3;#ATTACKS::x;", "#X:1\n;junk#:#B;",
                  "#NOTEDATA:;#displaybpm:60:240;#NOTES:0000;", "#A:b\\",
                  "#NOTES:dance-single:C\\\\:Songs:Easy:3:0,0:0000;", "#NOTES:dance-single:desc:Easy:3:0,0\\\\:0000:x\\\\:;",       # components ending in a backslash: from_str meets "\\:" in the joined string
                  "# Version:0.83;#TITLE:t;", "#VERSION\n#TITLE:x;#NOTES:a:b:c:d:e:0;", "#VERSION :0.83;#NOTEDATA:;#NOTES:0;"):
            out.append({"t": ["lit", t], "strict": strict, "names": ["a.txt", "a.sm", "a.ssc", "noext", "sm", ".sm", ".ssc", "Mr. Saturn.sm", "v1.2.ssc"]})
    return out


def gen(rng, i, tier):
    r = rng.random()
    if r < 0.12:
        files = G.corpus_files()
        j = rng.randrange(len(files))
        t = ["corpus", j, rng.randrange(1, 1 << 30)]
    elif r < 0.3:
        t = ["lit", "".join(rng.choice("#:;\\/ \n\rab﻿") for _ in range(rng.randrange(0, 16)))]
    elif r < 0.38:
        # the text of one SSC chart, as SSCChart.from_str takes it: a NOTEDATA parameter first; further NOTEDATA parameters, aliases and
        # parameters after the note data are ordinary content of the text
        parts = [rng.choice(["#NOTEDATA:;", "#notedata:;", "#NOTEDATA;", "#NOTEDATA:x;"])]
        for _ in range(rng.randrange(0, 6)):
            parts.append(rng.choice(["#STEPSTYPE:dance-single;", "#METER:3;", "#NOTEDATA:;", "#NOTEDATA;", "#CREDIT;", "#DISPLAYBPM:60:120;", "#meter:4;", "#X:a\\:b;", "#NOTES2:11;",
                                     "#CREDIT:a\n \nb;", "#CHARTNAME:two\n\t\nlines ;", "#RADARVALUES:\n   0,0,\n   0 ;"]))      # values with blank-only and indented lines
            parts.append(rng.choice(["", "\n", "\n\n"]))
        if rng.random() < 0.8:
            parts.append(rng.choice(["#NOTES:0000\n0000;", "#NOTES2:1000;", "#NOTES;", "#notes:0;"]))
        if rng.random() < 0.3:
            parts.append(rng.choice(["#CREDIT:after the notes;", "#NOTEDATA:;#NOTES:1;"]))
        t = ["lit", "".join(parts)]
        if rng.random() < 0.2:                 # the whole text indented alike, as in a triple-quoted literal
            t = ["lit", "\n".join("    " + ln for ln in t[1].split("\n"))]
    else:
        t = ["lit", G.rand_msd_text(rng)]
    return {"t": t, "strict": rng.random() < 0.5, "names": rng.sample(NAMES, 3)}


def text_of(c):
    t = c["t"]
    if t[0] == "lit":
        return t[1]
    import random
    base = G.corpus_files()[t[1]][1]
    if t[2] == 0:
        return base
    r = random.Random(t[2])
    for _ in range(r.choice([1, 1, 2])):
        base = G.mutate_text(r, base)
    return base[:20000]


def unl(t):
    return t.replace("\r\n", "\n").replace("\r", "\n")


def impl(c):
    import simfile
    from simfile.sm import SMSimfile, SMChart
    from simfile.ssc import SSCSimfile, SSCChart
    from msdparser import parse_msd
    t, strict = text_of(c), c["strict"]
    g = lambda f: G.guarded(lambda: G.sf_obs(f()))
    out = {}
    out["loads"] = g(lambda: simfile.loads(t, strict=strict))
    out["load_stringio"] = g(lambda: simfile.load(io.StringIO(t), strict=strict))
    out["load_iter"] = g(lambda: simfile.load(iter(t.splitlines(keepends=True)), strict=strict))
    out["SM_string"] = g(lambda: SMSimfile(string=t, strict=strict))
    out["SM_file"] = g(lambda: SMSimfile(file=io.StringIO(t), strict=strict))
    out["SSC_string"] = g(lambda: SSCSimfile(string=t, strict=strict))
    out["SSC_file"] = g(lambda: SSCSimfile(file=io.StringIO(t), strict=strict))
    out["SSCChart_from_str"] = G.guarded(lambda: G.props_obs(SSCChart.from_str(t, strict=strict)))
    d = tmpdir()
    for n in c["names"]:
        p = os.path.join(d, n)
        with io.open(p, "w", encoding="utf-8", newline="") as f:
            f.write(t)

        def via_load():
            with io.open(p, "r", encoding="utf-8", newline="") as f:
                return simfile.load(f, strict=strict)
        out["load_open:" + n] = g(via_load)
        out["open:" + n] = g(lambda: simfile.open(p, strict=strict))
        try:
            simfile.open(p, encoding="cp1252", strict=False)       # part of the history: a caller naming an encoding says nothing about later calls
        except Exception:
            pass
        os.remove(p)
    # the tokenizer's own parameter list (trusted base of the property)
    try:
        ps = [list(p.components) for p in parse_msd(string=t, ignore_stray_text=not strict)]
        out["params"] = ps
        if ps and ps[0][0].upper() == "NOTES":
            vals = ps[0][1:]
            out["SMChart_from_msd"] = G.guarded(lambda: G.sm_chart_obs(SMChart.from_msd(vals)))
            if not any(":" in v for v in vals):
                out["SMChart_from_str"] = G.guarded(lambda: G.sm_chart_obs(SMChart.from_str(":".join(vals))))
    except Exception as e:
        out["params"] = None
    return out


def requests(c):
    t, strict = text_of(c), c["strict"]
    reqs = [[14, strict, [], t], [12, strict, t], [13, strict, t], [17, strict, t], [10, strict, t]]
    for n in c["names"]:
        full = os.path.join(tmpdir(), n)           # file.name is the path the file was opened with
        reqs.append([14, strict, [full], t])
        reqs.append([14, strict, [full], unl(t)])
    return reqs


def model(c, ans):
    out = {}
    anon = G.dec_lres(ans[0][1], G.dec_simfile)
    out["loads"] = out["load_stringio"] = out["load_iter"] = anon
    out["SM_string"] = out["SM_file"] = G.dec_lres(ans[1][1], G.dec_sm)
    out["SSC_string"] = out["SSC_file"] = G.dec_lres(ans[2][1], G.dec_ssc)
    cf = G.dec_lres(ans[3][1], G.dec_props)
    if cf == ["err", "unmodelled"]:
        cf = ["err", "StopIteration"]          # no parameter at all: next() on the exhausted parser
    out["SSCChart_from_str"] = cf
    for i, n in enumerate(c["names"]):
        out["load_open:" + n] = G.dec_lres(ans[5 + 2 * i][1], G.dec_simfile)
        out["open:" + n] = G.dec_lres(ans[6 + 2 * i][1], G.dec_simfile)
    ps, st = ans[4][1]
    out["params"] = [[S(x) for x in p] for p in ps] if st == 0 else None
    if out["params"] and out["params"][0][0].upper() == "NOTES":
        vals = out["params"][0][1:]
        ch = ["ok", [[v.strip() for v in vals[:6]], vals[6:]]] if len(vals) >= 6 else ["err", "value"]
        out["SMChart_from_msd"] = ch
        if not any(":" in v for v in vals):
            out["SMChart_from_str"] = ch
    return out


# ---- the documented rules, applied to the tokenizer's parameters (independent of the Coq model)
MULTI = ("ATTACKS", "DISPLAYBPM")


def doc_value(key, comps):
    if len(comps) < 2:
        return None
    return ":".join(comps[1:]) if key in MULTI else comps[1]


def doc_props(params):
    keys, vals = [], {}
    for p in params:
        k = p[0].upper()
        if k not in vals:
            keys.append(k)
        vals[k] = doc_value(k, p)
    return [[k, vals[k]] for k in keys]


def doc_sm(params):
    charts = []
    plain = []
    for p in params:
        if p[0].upper() == "NOTES":
            if len(p) - 1 < 6:
                return ["err", "value"]
            charts.append([[x.strip() for x in p[1:7]], p[7:]])
        else:
            plain.append(p)
    return ["ok", ["SM", doc_props(plain), charts]]


def doc_ssc(params):
    head, charts, cur = [], [], None
    for p in params:
        if p[0].upper() == "NOTEDATA":
            cur = []
            charts.append(cur)
        elif cur is not None:
            cur.append(p)
        else:
            head.append(p)
    return ["ok", ["SSC", doc_props(head), [doc_props(c) for c in charts]]]


def oracle(c, o):
    if "__harness_exc__" in o:
        return "library raised %s (%s)" % (o["__harness_exc__"], o.get("msg"))
    t, strict = text_of(c), c["strict"]
    # same content, every name-less entry point
    for k in ("load_stringio", "load_iter"):
        if o[k] != o["loads"]:
            return "%s gives %s..., loads gives %s..." % (k, str(o[k])[:200], str(o["loads"])[:200])
    if o["SM_file"] != o["SM_string"] or o["SSC_file"] != o["SSC_string"]:
        return "class constructor string= and file= disagree"
    ps = o["params"]
    if ps is None:
        # the tokenizer itself rejects the text: every strict entry point must raise the parser's error
        if strict and o["loads"][0] == "ok":
            return "text with stray text was accepted under strict parsing"
        return None
    if not strict and o["loads"] == ["err", "stray"]:
        return "stray-text error although strict parsing is off"
    if ps and ps[0][0].upper() == "NOTEDATA":
        # SSCChart.from_str: everything after the first parameter belongs to the chart, up to and including its note data
        end = next((i for i in range(1, len(ps)) if ps[i][0].upper() in ("NOTES", "NOTES2")), len(ps) - 1)
        want_sc = ["ok", doc_props(ps[1:end + 1])]
        if o["SSCChart_from_str"] != want_sc:
            return "SSCChart.from_str gives %s..., the parameters after NOTEDATA up to the note data are %s..." % (str(o["SSCChart_from_str"])[:200], str(want_sc)[:200])
    if "SMChart_from_msd" in o:
        vals = ps[0][1:]
        want_chart = ["ok", [[v.strip() for v in vals[:6]], vals[6:]]] if len(vals) >= 6 else ["err", "value"]
        if o["SMChart_from_msd"] != want_chart:
            return "SMChart.from_msd gives %s..., six trimmed fields plus extra components would be %s..." % (str(o["SMChart_from_msd"])[:200], str(want_chart)[:200])
        if "SMChart_from_str" in o and o["SMChart_from_str"] != want_chart:
            return "SMChart.from_str on the components joined by ':' gives %s..., from_msd on the components gives %s..." % (
                str(o["SMChart_from_str"])[:200], str(want_chart)[:200])
    sm, ssc = doc_sm(ps), doc_ssc(ps)
    if o["SM_string"] != sm:
        return "SMSimfile gives %s..., documented rules give %s..." % (str(o["SM_string"])[:300], str(sm)[:300])
    if o["SSC_string"] != ssc:
        return "SSCSimfile gives %s..., documented rules give %s..." % (str(o["SSC_string"])[:300], str(ssc)[:300])
    want = ssc if (ps and ps[0][0].upper() == "VERSION") else sm
    if o["loads"] != want:
        return "loads() picked the wrong format or content: %s..." % (str(o["loads"])[:200],)
    for n in c["names"]:
        suf = os.path.join(tmpdir(), n).lower().rpartition(".")[2]
        w = ssc if suf == "ssc" else sm if suf == "sm" else want
        if o["load_open:" + n] != w:
            return "load(open(%r)) gives %s..., expected %s..." % (n, str(o["load_open:" + n])[:200], str(w)[:200])
        if "\r" not in t and o["open:" + n] != w:
            return "open(%r) gives %s..., expected %s..." % (n, str(o["open:" + n])[:200], str(w)[:200])
        if "\r" in t:
            # opening by name reads in text mode: the rules apply to the text with CRLF and CR read as LF
            from msdparser import parse_msd
            tn = t.replace("\r\n", "\n").replace("\r", "\n")
            try:
                pn = [list(x.components) for x in parse_msd(string=tn, ignore_stray_text=not strict)]
            except Exception:
                pn = None
            if pn is not None:
                smn, sscn = doc_sm(pn), doc_ssc(pn)
                wn = sscn if suf == "ssc" else smn if suf == "sm" else (sscn if (pn and pn[0][0].upper() == "VERSION") else smn)
                if o["open:" + n] != wn:
                    return "open(%r) on text with carriage returns gives %s..., the rules on the text-mode contents give %s..." % (n, str(o["open:" + n])[:200], str(wn)[:200])
    if not strict:
        # equals the result for the same text with the stray text removed: re-render the parameters and parse strictly
        pass
    return None


def nontrivial(c, o):
    return isinstance(o, dict) and isinstance(o.get("params"), list) and len(o["params"]) >= 2


def describe(c):
    return "%s/%s" % (c["t"][0] if c["t"][0] == "lit" else ("corpus" if c["t"][2] == 0 else "mutated"), "strict" if c["strict"] else "lenient")


def shrink(c):
    if c["t"][0] != "lit":
        t = text_of(c)
        c = dict(c, t=["lit", t])
        yield c
    t = c["t"][1]
    n = len(t)
    for k in (n // 2, n // 4, 8, 1):
        if k < 1:
            continue
        for i in range(0, n, k):
            yield dict(c, t=["lit", t[:i] + t[i + k:]])


def known_probes():
    import simfile

    def k2():
        try:
            simfile.loads("#A:b\\")
            return False
        except AssertionError:
            return True
        except Exception:
            return False

    def k6():
        from msdparser import parse_msd
        a = [p.components for p in parse_msd(string="#X:1\n;junk#:#B;", ignore_stray_text=True)]
        b = [p.components for p in parse_msd(string="#X:1\n;#:#B;", ignore_stray_text=True)]
        return a != b
    return [("K2", "text ending in an unpaired backslash makes msdparser fail an internal assertion (dependency; excluded by the property)", k2),
            ("K6", "msdparser: removing stray text changes the parse when a key is empty (#X:1\\n;junk#:#B;) - dependency quirk, outside known/unknown keys", k6)]
