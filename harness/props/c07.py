"""C07 - note data text decodes to exactly one correctly placed note per non-zero cell."""
import random
from fractions import Fraction

from ..driver import SKIP
from ..lib import S
from .. import gen_notes as G

ID = "C07"
N_QUICK, N_THOROUGH = 1200, 60000
RULE = ("well-formed note data rendered from random grids (1..16 columns, 1..3 players, rows per measure from 1..192, every note character, "
        "keysound brackets, blank/CRLF noise) + every corpus chart; compares list(NoteData), columns, str, and the four comparison operators on "
        "sampled note pairs (cross-player and same-position pairs included); non-trivial = at least 2 notes")
assumptions = ["texts outside the well-formed domain (unknown characters, brackets on '0' cells, double brackets) are Unmodelled and skipped"]
extra_trusted = []


def corpus():
    out = [{"k": "corpus", "i": i} for i in range(len(G.corpus_charts()))]
    g = [[[["0", ["1", None]], [["K", 12], "0"]]], [[[["M", None], ["3", 5]]]]]
    out.append({"k": "grid", "g": g, "noise": 0})
    out.append({"k": "grid", "g": [[[[["1", 7], "0"], ["0", "0"], [["1", None], ["2", None]]]]], "noise": 0})   # stale keysound regression
    return out


def gen(rng, i, tier):
    return {"k": "grid", "g": G.rand_grid(rng), "noise": rng.randrange(1 << 30) if rng.random() < 0.7 else 0, "trim": rng.choice([None, None, "end", "both"])}


def text_of(c):
    if c["k"] == "corpus":
        return G.corpus_charts()[c["i"]][2]
    t = G.render_grid(c["g"], c["noise"])
    if c.get("trim"):          # no blank or line break after the last row (or before the first): the text ends directly on a cell or a bracket
        t = t.rstrip() if c["trim"] == "end" else t.strip()
    return t


def pairs(c, n):
    r = random.Random(len(text_of(c)) * 7919 + n)
    if n == 0:
        return []
    ps = [(r.randrange(n), r.randrange(n)) for _ in range(min(12, n * n))]
    ps += [(0, n - 1), (n - 1, 0), (0, 0)]
    # neighbours in reading order, both ways round: where two positions are closest
    for i in range(min(n - 1, 80)):
        ps += [(i, i + 1), (i + 1, i)]
    return ps


def impl(c):
    from simfile.notes import NoteData
    t = text_of(c)
    nd = NoteData(t)
    # iteration history: an abandoned partial pass first, then two complete passes (the second while a third is open)
    started = iter(nd)
    first = next(started, None)
    notes = list(nd)
    obs = [G.note_obs(n) for n in notes]
    open_it = iter(nd)
    next(open_it, None)
    again = [G.note_obs(n) for n in nd]
    stable = again == obs and (first is None or (obs and G.note_obs(first) == obs[0])) and [G.note_obs(n) for n in started] == obs[1:]
    cmp = []
    for i, j in pairs(c, len(notes)):
        a, b = notes[i], notes[j]
        cmp.append([i, j, a < b, a <= b, a > b, a >= b])
    # same position, different content
    if notes:
        from simfile.notes import Note, NoteType
        a = notes[0]
        b = Note(beat=a.beat, column=a.column, note_type=NoteType.MINE if a.note_type != NoteType.MINE else NoteType.TAP, player=a.player, keysound_index=99)
        cmp.append([0, -1, a < b, a <= b, a > b, a >= b])
    via_chart = True
    try:
        from simfile.sm import SMChart
        from simfile.ssc import SSCChart
        import random as _r
        st = _r.Random(len(t)).choice(["dance-single", "dance-double", "pump-single", "my-own-type", "dance-solo"])
        for ch in (SMChart.blank(), SSCChart.blank()):
            ch.stepstype = st
            ch.notes = t
            ndc = NoteData(ch)
            if [G.note_obs(n) for n in ndc] != obs or ndc.columns != nd.columns:
                via_chart = ["%s with steps type %s" % (type(ch).__name__, st), "columns %s" % ndc.columns]
    except Exception as e:
        via_chart = ["NoteData(chart) raised %s" % type(e).__name__]
    return {"notes": obs, "columns": nd.columns, "str_same": str(nd) == t, "cmp": cmp, "stable": bool(stable), "via_chart": via_chart}


def requests(c):
    t = text_of(c)
    return [[70, t]]


def model(c, ans):
    a = ans[0]
    assert a[0] == 0
    if a[1] == []:
        return SKIP
    cols, notes = a[1][0]
    obs = [G.un_sx_note(x) for x in notes]
    cmp = []

    def key(o):
        return (o[4], Fraction(o[0], o[1]), o[2])
    for i, j in pairs(c, len(obs)):
        ka, kb = key(obs[i]), key(obs[j])
        cmp.append([i, j, ka < kb, ka <= kb, ka > kb, ka >= kb])
    if obs:
        cmp.append([0, -1, False, True, False, True])
    return {"notes": obs, "columns": cols, "str_same": True, "cmp": cmp, "stable": True, "via_chart": True}


def oracle(c, o):
    if "__harness_exc__" in o:
        return "library raised %s on well-formed note data" % o["__harness_exc__"]
    if o.get("via_chart") is not True:
        return "the same note data read through a chart differs from reading the text: %s" % (o.get("via_chart"),)
    if c["k"] == "grid":
        exp = G.expected_notes(c["g"])
        if o["notes"] != exp:
            for a, b in zip(o["notes"], exp):
                if a != b:
                    return "note %s decoded, the cell says %s" % (a, b)
            return "decoded %d notes, the grid has %d non-zero cells" % (len(o["notes"]), len(exp))
        if o["columns"] != len(c["g"][0][0][0]):
            return "columns reported %s, row width is %d" % (o["columns"], len(c["g"][0][0][0]))
    ks = [(n[4], Fraction(n[0], n[1]), n[2]) for n in o["notes"]]
    if any(a >= b for a, b in zip(ks, ks[1:])):
        return "notes are not in strictly increasing (player, beat, column) order"
    if not o["str_same"]:
        return "str(NoteData(text)) != text"
    if o.get("stable") is False:
        return "iterating the same NoteData again (after an abandoned partial pass / while another pass is open) gave different notes"
    for i, j, lt, le, gt, ge in o["cmp"]:
        ka = ks[i]
        kb = ks[j] if j >= 0 else ks[0]
        if [lt, le, gt, ge] != [ka < kb, ka <= kb, ka > kb, ka >= kb]:
            return "comparison operators between notes %d and %d give %s, position order gives %s" % (i, j, [lt, le, gt, ge], [ka < kb, ka <= kb, ka > kb, ka >= kb])
    return None


def nontrivial(c, o):
    return isinstance(o, dict) and len(o.get("notes", [])) >= 2


def describe(c):
    if c["k"] == "corpus":
        return "corpus"
    g = c["g"]
    return "players%d/cols%d/%s" % (len(g), len(g[0][0][0]), "noisy" if c["noise"] else "canonical")


def shrink(c):
    if c["k"] != "grid":
        return
    g = c["g"]
    if c["noise"]:
        yield dict(c, noise=0)
    for p in range(len(g)):
        if len(g) > 1:
            yield dict(c, g=g[:p] + g[p + 1:])
        for m in range(len(g[p])):
            if len(g[p]) > 1:
                yield dict(c, g=g[:p] + [g[p][:m] + g[p][m + 1:]] + g[p + 1:])
            rows = g[p][m]
            if len(rows) > 1:
                half = rows[: len(rows) // 2]
                yield dict(c, g=g[:p] + [g[p][:m] + [half] + g[p][m + 1:]] + g[p + 1:])
