"""C10 - ungrouping grouped notes restores the original note stream."""
import itertools
from fractions import Fraction

from ..driver import SKIP
from .. import gen_notes as G
from . import c09

ID = "C10"
RULE = ("streams as for C09 (tails without keysound index) x same-beat modes x join on/off x 3x3 orphan policies of group_notes x 3 policies of "
        "ungroup_notes: exhaustive on 2 columns x 2 rows (quick) / 3 rows (thorough); random beyond, a third of them well-formed dense streams on 3..6 columns (every head "
        "closed, tails sharing their beat with notes either side); hand-built grouped sequences with a note of any type (stray tails and heads too) inside one "
        "or several open holds; every corpus chart; non-trivial = >= 2 notes")
assumptions = c09.assumptions + ["no two pending tails share a position (never produced by group_notes; hand-built cases avoid it), so heap order = sorted order"]
extra_trusted = []
_enum = {}


def enumeration(rows):
    if rows not in _enum:
        out = []
        for cells in itertools.product(c09.KINDS, repeat=2 * rows):
            ns = c09.grid_stream(cells, 2, rows)
            for ph, pt in ((2, 2), (3, 3), (2, 3), (3, 2), (1, 1)):
                out.append({"k": "rt", "ns": ns, "types": c09.ALLTYPES, "mode": 1, "join": True, "ph": ph, "pt": pt, "pol": 1})
            out.append({"k": "rt", "ns": ns, "types": c09.ALLTYPES, "mode": 3, "join": False, "ph": 2, "pt": 2, "pol": 2})
        _enum[rows] = out
    return _enum[rows]


def hold(b0, b1, c, t="2", ks=None):
    return [b0, 1, c, t, 0, ks, b1, 1]


def wellformed(rng):
    """a stream as a chart would hold it: every head has its tail, nothing starts inside an open hold; dense rows, so tails share
    their beat with notes in lower and higher columns"""
    cols = rng.choice([3, 4, 4, 6])
    den = rng.choice([1, 1, 2, 4])
    nb = rng.randrange(3, 10)
    open_until = [None] * cols
    ns = []
    for b in range(nb):
        for c in range(cols):
            if open_until[c] is not None:
                if open_until[c] == b:
                    ns.append([b, den, c, "3", 0, None]); open_until[c] = None
                continue
            if rng.random() < 0.55:
                if b < nb - 1 and rng.random() < 0.4:
                    ns.append([b, den, c, rng.choice("24"), 0, rng.choice([None, None, 2])]); open_until[c] = rng.randrange(b + 1, nb)
                else:
                    ns.append([b, den, c, rng.choice("11MLF"), 0, None])
    for n in ns:
        f = Fraction(n[0], n[1]); n[0], n[1] = f.numerator, f.denominator
    return {"k": "rt", "ns": ns, "types": c09.ALLTYPES, "mode": rng.choice([1, 2, 3, 3]), "join": rng.random() < 0.85,
            "ph": rng.choice([1, 2, 3]), "pt": rng.choice([1, 2, 3]), "pol": rng.choice([1, 2, 3]), "shape": rng.choice([0, 1, 2, 3])}


def corpus():
    out = []
    for i in range(len(G.corpus_charts())):
        for mode in (1, 2, 3):
            out.append({"k": "rt", "corpus": i, "types": c09.ALLTYPES, "mode": mode, "join": True, "ph": 2, "pt": 2, "pol": 1})
    # hand-built: a note inside a hold (three policies); two holds open, splitter in the one whose tail is later
    for pol in (1, 2, 3):
        out.append({"k": "hand", "groups": [[hold(0, 4, 0)], [[2, 1, 0, "M", 0, None]], [[3, 1, 1, "1", 0, None]]], "pol": pol})
        out.append({"k": "hand", "groups": [[hold(0, 4, 0)], [hold(1, 3, 1)], [[2, 1, 0, "M", 0, None]]], "pol": pol})
        for ty in "324":           # the note inside the hold is itself a stray tail, or a head without a tail
            out.append({"k": "hand", "groups": [[hold(0, 4, 0)], [[2, 1, 0, ty, 0, None]], [[3, 1, 1, "1", 0, None]]], "pol": pol})
    out.append({"k": "rt", "ns": [[0, 1, 0, "2", 0, 0], [1, 1, 0, "3", 0, None]], "types": c09.ALLTYPES, "mode": 1, "join": True, "ph": 2, "pt": 2, "pol": 1})
    # three notes on distinct beats inside one 1/48 tick, types A B A, under each same-beat mode: distinct beats stay distinct groups
    for mode in (1, 2, 3):
        for join in (False, True):
            out.append({"k": "rt", "ns": [[1, 7, 0, "1", 0, None], [7, 48, 0, "M", 0, None], [3, 20, 1, "1", 0, None]], "types": c09.ALLTYPES, "mode": mode, "join": join, "ph": 2, "pt": 2, "pol": 1})
    out.append({"k": "rt", "ns": [[0, 1, 0, "2", 0, 5], [1, 1, 1, "4", 0, 0], [2, 1, 1, "3", 0, None], [3, 1, 0, "3", 0, None]], "types": c09.ALLTYPES, "mode": 1, "join": True, "ph": 2, "pt": 2, "pol": 1})
    return out


def gen(rng, i, tier):
    en = enumeration(3 if tier == "thorough" else 2)
    if i < len(en):
        return en[i]
    if rng.random() < 0.25:
        # hand-built grouped sequence: holds and plain notes on a small grid, possibly splitting
        cols = rng.choice([2, 3, 4])
        items = []
        used = set()
        for _ in range(rng.randrange(1, 7)):
            b0 = rng.randrange(0, 10); c = rng.randrange(cols)
            if (b0, c) in used:
                continue
            used.add((b0, c))
            if rng.random() < 0.5:
                b1 = b0 + rng.randrange(1, 6)
                if any((b1, c) == u for u in used):
                    continue
                used.add((b1, c))
                items.append(hold(b0, b1, c, rng.choice("24"), rng.choice([None, None, 0, 3])))
            else:
                items.append([b0, 1, c, rng.choice("1MLF1MLF324"), 0, None])      # any note type can be the plain note inside a hold: a stray tail or head too
        items.sort(key=lambda o: (o[0], o[2]))
        # distinct tail positions only
        tails = [(o[6], o[2]) for o in items if len(o) == 8]
        if len(set(tails)) != len(tails):
            items = [o for o in items if len(o) != 8]
        return {"k": "hand", "groups": [[o] for o in items], "pol": rng.choice([1, 2, 3]), "shape": rng.choice([0, 0, 1, 2])}
    if rng.random() < 0.3:
        return wellformed(rng)
    c = c09.gen(rng, 10 ** 9, tier)
    for n in c["ns"]:
        if n[3] == "3":
            n[5] = None
    return {"k": "rt", "ns": c["ns"], "types": c["types"], "mode": c["mode"], "join": c["join"], "ph": c["ph"], "pt": c["pt"], "pol": rng.choice([1, 2, 3]),
            "shape": c.get("shape", 0)}


N_QUICK = len(enumeration(2)) + 1500
N_THOROUGH = len(list(itertools.product(c09.KINDS, repeat=6))) * 6 + 40000


def stream(c):
    ns = c09.stream(c)
    return [n[:5] + [None] if n[3] == "3" else n for n in ns]


def mk_item(o):
    from simfile.notes.group import NoteWithTail
    from simfile.notes import NoteType
    from simfile.timing import Beat
    if len(o) == 8:
        return NoteWithTail(beat=Beat(o[0], o[1]), column=o[2], note_type=NoteType(o[3]), tail_beat=Beat(o[6], o[7]), player=o[4], keysound_index=o[5])
    return G.mk_note(o)


def impl(c):
    from simfile.notes import NoteType
    from simfile.notes.group import group_notes, ungroup_notes, SameBeatNotes, OrphanedNotes, OrphanedNoteException
    pol = OrphanedNotes(c["pol"])
    try:
        if c["k"] == "hand":
            groups = [[mk_item(o) for o in g] for g in c["groups"]]
            if c.get("shape", 0) == 1:
                groups = [tuple(g) for g in groups]       # a group is any sequence of notes: a tuple as well as a list
            if c.get("shape", 0) >= 2:
                groups = iter(groups)          # ungroup_notes takes any iterable of groups
        else:
            ns = [G.mk_note(o) for o in stream(c)]
            groups = group_notes(c09.shaped(c, ns), include_note_types=frozenset(NoteType(t) for t in c["types"]), same_beat_notes=SameBeatNotes(c["mode"]),
                                 join_heads_to_tails=c["join"], orphaned_head=OrphanedNotes(c["ph"]), orphaned_tail=OrphanedNotes(c["pt"]))
        if c["k"] != "hand" and c.get("shape", 0) == 1:
            groups = (tuple(g) for g in groups)               # the groups re-spelled as tuples, handed over lazily
        return ["ok", [G.note_obs(n) for n in ungroup_notes(groups, orphaned_notes=pol)]]
    except OrphanedNoteException as e:
        return ["orphan", G.note_obs(e.args[0])]


def sx_item(o):
    if len(o) == 8:
        return [1, G.sx_note(o[:6]), o[6], o[7]]
    return [0, G.sx_note(o)]


def requests(c):
    if c["k"] == "hand":
        return [[91, c["pol"], [[sx_item(o) for o in g] for g in c["groups"]]]]
    return [[95, [ord(t) for t in c["types"]], c["mode"], c["join"], c["ph"], c["pt"], c["pol"], [G.sx_note(o) for o in stream(c)]]]


def un_ures(a):
    return ["ok", [G.un_sx_note(x) for x in a[1]]] if a[0] == 0 else ["orphan", G.un_sx_note(a[1])]


def model(c, ans):
    a = ans[0][1]
    if c["k"] == "hand":
        return un_ures(a)
    if a[0] == 0:
        return un_ures(a[1])
    if a[0] == 1:
        return ["orphan", G.un_sx_note(a[1])]
    return ["internal"]


def oracle(c, o):
    if isinstance(o, dict):
        return "library raised %s (%s)" % (o.get("__harness_exc__"), o.get("msg"))
    if c["k"] == "hand":
        # expected by the documented rule: emit heads and plain notes in order, tails at their position; a note whose column
        # has a pending tail is raised about / kept / dropped
        items = [x for g in c["groups"] for x in g]
        out, pend = [], []
        for x in items:
            key = (x[4], Fraction(x[0], x[1]), x[2])
            for t in sorted([t for t in pend if (t[4], Fraction(t[0], t[1]), t[2]) < key], key=lambda t: (t[4], Fraction(t[0], t[1]), t[2])):
                out.append(t); pend.remove(t)
            inside = any(t[2] == x[2] for t in pend)
            if inside and c["pol"] == 1:
                return None if o == ["orphan", x[:6]] else "note %s lies inside a joined hold; expected OrphanedNoteException about it, got %s" % (x[:6], str(o)[:200])
            if not (inside and c["pol"] == 3):
                out.append(x[:6])
            if len(x) == 8:
                tb = Fraction(x[6], x[7])
                pend.append([tb.numerator, tb.denominator, x[2], "3", x[4], None])
        out += sorted(pend, key=lambda t: (t[4], Fraction(t[0], t[1]), t[2]))
        return None if o == ["ok", out] else "ungroup gave %s, the rule gives %s" % (str(o)[:300], str(out)[:300])
    ns = [n for n in stream(c) if n[3] in c["types"]]
    spec = c09.spec_items(ns, c["join"], c["ph"], c["pt"])
    if spec[0] == "orphan":
        return None if o == spec else "expected the orphan %s to be raised, got %s" % (spec[1], str(o)[:200])
    # notes that survive grouping (dropped orphans are exactly the missing ones)
    survivors = []
    for it in spec[1]:
        survivors.append(it[:6])
        if len(it) == 8:
            survivors.append([it[6], it[7], it[2], "3", it[4], None])
    want = [n for n in ns if n in survivors]
    if o[0] != "ok":
        return "ungroup raised about %s although no note lies inside a joined hold" % (o[1],)
    if c["mode"] == 2:
        key = lambda n: (Fraction(n[0], n[1]), n[2], n[3], str(n[5]))
        if sorted(o[1], key=key) != sorted(want, key=key):
            return "per-type grouping: notes differ from the original (as multisets)"
        bs = [Fraction(n[0], n[1]) for n in o[1]]
        if any(a > b for a, b in zip(bs, bs[1:])):
            return "per-type grouping: beats decrease"
        return None
    if o[1] != want:
        return "ungroup(group(ns)) = %s..., original (minus dropped orphans) = %s..." % (str(o[1])[:300], str(want)[:300])
    return None


def nontrivial(c, o):
    return (len(c["groups"]) if c["k"] == "hand" else len(stream(c))) >= 2


def describe(c):
    if c["k"] == "hand":
        return "hand/pol%d" % c["pol"]
    return "rt/%s/join%d/mode%d/ph%d/pt%d/pol%d" % ("corpus" if "corpus" in c else "gen", c["join"], c["mode"], c["ph"], c["pt"], c["pol"])


def shrink(c):
    if c["k"] == "hand":
        g = c["groups"]
        for i in range(len(g)):
            yield dict(c, groups=g[:i] + g[i + 1:])
        return
    if "corpus" in c:
        ns = stream(c)
        c = dict(c, ns=ns)
        del c["corpus"]
        yield dict(c, ns=ns[: len(ns) // 2])
        return
    ns = c["ns"]
    for i in range(len(ns)):
        yield dict(c, ns=ns[:i] + ns[i + 1:])
