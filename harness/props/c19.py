"""C19 - directory and pack discovery finds exactly the right simfiles."""
import random

from ..driver import SKIP
from ..lib import S
from .. import gen_simfile as G
from .. import fsharness as F

ID = "C19"
N_QUICK, N_THOROUGH = 400, 20000
RULE = ("directory trees to depth 3: simfile extensions in mixed case, near-miss names (.sm.old, .ssca, 'sm'), images/audio/other files, loose files next to "
        "directories, empty and nested directories, song folders named like images, audio files or near-misses, 0..2 simfiles of each kind per directory; x native temp directory and MemoryFS x strict x "
        "ignore_duplicate; files contain stray text so a dropped loader option is visible; an encoding option that changes the decoded text; compares "
        "SimfileDirectory paths / errors, SimfilePack members in listing order, opendir/openpack results and paths; non-trivial = pack with >= 1 member")
assumptions = ["file names avoid U+03A3 (str.lower()'s final-sigma rule is context dependent; the model lowers per character)",
               "os.listdir / PyFilesystem listing order is an input of the model (recorded by the harness)"]
extra_trusted = ["os, tempfile, PyFilesystem2 MemoryFS; path join/split/normpath are evaluated by the real library"]

SIM_NAMES = ["song.sm", "song.ssc", "Song.SM", "b.Ssc", "x.sM", "other.sm", "second.ssc", "UPPER.SSC", "._song.sm", "._new.ssc", ".hidden.ssc", "a b.sm", "dotted.name.ssc", ".ssc", ".SM", ".sm"]
NEAR = ["song.sm.old", "song.ssca", "sm", "ssc", "song.smx", "notes.txt", "banner.png", "music.ogg", ".sm.bak", "a.sm~"]
GOOD = b"#TITLE:ok;\n#BPMS:0.000=120.000;\n"
STRAY = b"junk\n#TITLE:stray;\n#BPMS:0.000=120.000;\n"
ENC = "#TITLE:café;\n".encode("utf-8")          # valid utf-8 and valid cp1252, decoding differently
SSC_GOOD = b"#VERSION:0.83;\n#TITLE:ssc;\n"


def content_for(rng, name):
    if name.lower().endswith(".ssc"):
        return rng.choice([SSC_GOOD, SSC_GOOD, b"junk " + SSC_GOOD, ENC, GOOD + b"#NOTEDATA:;\n#NOTES:0000;\n", b"", b"\n"])      # an .ssc file need not start with VERSION
    return rng.choice([GOOD, GOOD, STRAY, ENC, SSC_GOOD])                                                             # and an .sm file may


def rand_song_dir(rng):
    d = {}
    for n in rng.sample(SIM_NAMES, rng.choice([0, 1, 1, 1, 2, 2, 3, 4])):
        d[n] = content_for(rng, n)
    for n in rng.sample(NEAR, rng.choice([0, 1, 2, 3])):
        d[n] = b"x"
    if rng.random() < 0.2:
        d["nested"] = {"deep.sm": GOOD}
    return d


def enc_tree(t):
    return {k: (enc_tree(v) if isinstance(v, dict) else v.hex()) for k, v in t.items()}


def dec_tree(t):
    return {k: (dec_tree(v) if isinstance(v, dict) else bytes.fromhex(v)) for k, v in t.items()}


def corpus():
    out = []
    out.append({"fs": "native", "tree": enc_tree({"A": {"UPPER.SM": GOOD}, "B": {"Mixed.sSc": SSC_GOOD}, "loose.sm": GOOD, "empty": {}}), "strict": True, "ignore": False, "encoding": None})
    out.append({"fs": "mem", "tree": enc_tree({"A": {"a.sm": STRAY}, "B": {"b.ssc": SSC_GOOD, "b.sm": STRAY}}), "strict": False, "ignore": False, "encoding": None})
    out.append({"fs": "native", "tree": enc_tree({"A": {"a.sm": ENC}}), "strict": True, "ignore": False, "encoding": "cp1252"})
    out.append({"fs": "mem", "tree": enc_tree({"A": {"a.sm": GOOD, "b.sm": GOOD}}), "strict": True, "ignore": True, "encoding": None})
    # song folders named like files
    out.append({"fs": "native", "tree": enc_tree({"Remix.MP3": {"a.sm": GOOD}, "cover.png": {"b.ssc": SSC_GOOD}, "Theme (full ver.).ogg": {"c.sm": GOOD}, "x.oga": {}, "plain": {"d.sm": GOOD}}),
                "strict": True, "ignore": False, "encoding": None})
    out.append({"fs": "mem", "tree": enc_tree({"Remix.wav": {"a.sm": GOOD}, "cover.JPG": {"b.ssc": SSC_GOOD}, "real.sm": GOOD}), "strict": True, "ignore": False, "encoding": None})
    return out


def gen(rng, i, tier):
    tree = {}
    for j in range(rng.choice([0, 1, 2, 3, 5])):
        tree["dir%d%s" % (j, rng.choice(["", " x", ".smx", " sm", " (full ver.).ogg", ".png", ".sm.old", ".JPG", ".mp3"]))] = rand_song_dir(rng)     # a folder is a folder, whatever its name ends in
    # (folders whose own name ends in .sm/.ssc are left out: the quantifier builds trees from FILE names with simfile extensions; see DESIGN.md 10.5)
    for n in rng.sample(SIM_NAMES + NEAR, rng.choice([0, 1, 2])):
        tree[n] = GOOD
    return {"fs": rng.choice(["native", "mem"]), "tree": enc_tree(tree), "strict": rng.random() < 0.5, "ignore": rng.random() < 0.4,
            "encoding": rng.choice([None, None, None, "cp1252"]), "spelling": rng.choice([None, None, "sep", "rel"])}


def kwargs(c):
    kw = {"strict": c["strict"]}
    if c["encoding"]:
        kw["encoding"] = c["encoding"]
    return kw


def guard(f):
    import simfile
    from simfile.dir import DuplicateSimfileError
    try:
        return ["ok", f()]
    except DuplicateSimfileError:
        return ["err", "duplicate"]
    except FileNotFoundError:
        return ["err", "notfound"]
    except Exception as e:
        return ["err", "load" if type(e).__name__ in ("MSDParserError", "ValueError", "AssertionError") else type(e).__name__]


def impl(c):
    import simfile
    from simfile.dir import SimfileDirectory, SimfilePack
    t = F.Tree(c["fs"], dec_tree(c["tree"]))
    import os
    cwd = os.getcwd()
    if c.get("spelling") == "rel" and t.kind == "native":
        os.chdir(t.base)
        _rel = t.rel
        t.rel = lambda p: _rel(p if p is None or os.path.isabs(p) else os.path.join(t.base, p))     # relative answers are relative to that directory
    try:
        res = {"listings": {}, "dirs": {}}
        root_list = t.listdir(t.root)
        res["listings"][""] = [[n, t.isdir(t.root + t.sep + n)] for n in root_list]
        subdirs = [n for n in root_list if t.isdir(t.root + t.sep + n)]
        for n in subdirs + [""]:
            d = t.root + (t.sep + n if n else "")
            dsp = d + (t.sep if c.get("spelling") == "sep" else "")        # the directory as a caller may spell it: with a trailing separator
            if c.get("spelling") == "rel" and t.kind == "native":
                dsp = os.path.relpath(d, t.base)                           # ... or relative to the current directory (set below)
            res["listings"]["/" + n if n else ""] = res["listings"].get("", None) if not n else [[x, t.isdir(d + t.sep + x)] for x in t.listdir(d)]
            def mk():
                sd = SimfileDirectory(dsp, filesystem=t.fs, ignore_duplicate=c["ignore"])
                return [t.rel(sd.sm_path), t.rel(sd.ssc_path), t.rel(sd.simfile_path)]
            entry = {"paths": guard(mk)}
            entry["open"] = guard(lambda: G.sf_obs(SimfileDirectory(dsp, filesystem=t.fs, ignore_duplicate=c["ignore"]).open(**kwargs(c))))
            # one object asked twice: first leniently, then with the defaults - the second answer is that of a fresh object
            def twice():
                sd = SimfileDirectory(dsp, filesystem=t.fs, ignore_duplicate=c["ignore"])
                try:
                    sd.open(strict=False)
                except Exception:
                    pass
                return G.sf_obs(sd.open())
            res.setdefault("again", {})[n] = [guard(twice), guard(lambda: G.sf_obs(SimfileDirectory(dsp, filesystem=t.fs, ignore_duplicate=c["ignore"]).open()))]
            def od():
                sf, p = simfile.opendir(dsp, filesystem=t.fs, **kwargs(c))
                return [G.sf_obs(sf), t.rel(p)]
            entry["opendir"] = guard(od)
            res["dirs"][n] = entry
        rsp = t.root + (t.sep if c.get("spelling") == "sep" else "")
        if c.get("spelling") == "rel" and t.kind == "native":
            rsp = os.path.relpath(t.root, t.base)
        res["pack"] = guard(lambda: [t.rel(p) for p in SimfilePack(rsp, filesystem=t.fs).simfile_dir_paths])
        res["pack_name"] = guard(lambda: SimfilePack(t.root + t.sep, filesystem=t.fs).name)
        res["openpack"] = guard(lambda: [[G.sf_obs(sf), t.rel(p)] for sf, p in simfile.openpack(rsp, filesystem=t.fs, **kwargs(c))])
        res["pack_simfiles"] = guard(lambda: [G.sf_obs(sf) for sf in SimfilePack(rsp, filesystem=t.fs, ignore_duplicate=c["ignore"]).simfiles(**kwargs(c))])
        return res
    finally:
        os.chdir(cwd)
        t.close()


_cache = {}


def cached_impl(c):
    import json, sys
    k = json.dumps(c, sort_keys=True)
    if k not in _cache:
        if len(_cache) > 2000:
            _cache.clear()
        from ..driver import safe_impl
        _cache[k] = safe_impl(sys.modules[__name__], c)
    return _cache[k]


def file_text(c, relpath):
    node = dec_tree(c["tree"])
    for part in [p for p in relpath.split("/") if p][1:]:
        node = node[part]
    encs = [c["encoding"]] if c["encoding"] else F.DEFAULT_ENCODINGS
    for e in encs:
        t = F.text_mode_decode(node, e)
        if t is not None:
            return t
    return None


def requests(c):
    o = cached_impl(c)
    if "__harness_exc__" in o:
        return []
    reqs = []
    order = []
    for n, entry in o["dirs"].items():
        listing = [x for x, isd in o["listings"]["/" + n if n else ""]]
        reqs.append([190, listing, c["ignore"]]); order.append(("dir", n))
        reqs.append([190, listing, False]); order.append(("dir_noignore", n))
        # the loads the model needs: every simfile-looking file of this directory
        for x in listing:
            if x.lower().endswith((".sm", ".ssc")):
                rel = "/pack" + ("/" + n if n else "") + "/" + x
                try:
                    txt = file_text(c, rel)
                except Exception:
                    txt = None
                if txt is not None:
                    reqs.append([14, c["strict"], [rel], txt]); order.append(("load", rel))
    entries = []
    for x, isd in o["listings"][""]:
        entries.append([x, [[y for y, _ in o["listings"]["/" + x]]] if isd else []])
    reqs.append([191, entries]); order.append(("pack", None))
    c["_order"] = order
    return reqs


def model(c, ans):
    o = cached_impl(c)
    if not ans:
        return SKIP
    order = c.pop("_order")
    loads, dirs, dirs_ni, pack = {}, {}, {}, None
    for (kind, key), a in zip(order, ans):
        a = a[1]
        if kind == "load":
            loads[key] = G.dec_lres(a, G.dec_simfile)
        elif kind == "dir":
            dirs[key] = a
        elif kind == "dir_noignore":
            dirs_ni[key] = a
        else:
            pack = [S(x) for x in a]

    def opt(x):
        return None if x == [] else S(x[0])

    def dir_entry(n, a):
        base = "/pack" + ("/" + n if n else "")
        paths, target = a
        e = {}
        if paths[0] == 0:
            sm, ssc = opt(paths[1][0]), opt(paths[1][1])
            rel = lambda x: None if x is None else base + "/" + x
            e["paths"] = ["ok", [rel(sm), rel(ssc), rel(ssc or sm)]]
        else:
            e["paths"] = ["err", "duplicate"]
        if target[0] == 0:
            p = base + "/" + S(target[1])
            r = loads.get(p, ["err", "UnicodeDecodeError"])
            e["open"] = r if r[0] == "ok" else ["err", "load" if r[1] in ("stray", "value", "backslash") else r[1]]
            e["target"] = p
        else:
            e["open"] = ["err", "duplicate" if target[0] == 1 else "notfound"]
            e["target"] = None
        return e
    res = {"dirs": {}}
    for n in o["dirs"]:
        e = dir_entry(n, dirs[n])
        eni = dir_entry(n, dirs_ni[n])
        res["dirs"][n] = {"paths": e["paths"], "open": e["open"],
                          "opendir": (["ok", [eni["open"][1], eni["target"]]] if eni["open"][0] == "ok" else eni["open"])}
    res["pack"] = ["ok", ["/pack/" + x for x in pack]]
    res["pack_name"] = ["ok", "pack"]
    # openpack: every member opened without ignore_duplicate; simfiles(): with the caller's flag
    def members(table, with_paths):
        out = []
        for x in pack:
            e = dir_entry(x, table[x])
            if e["open"][0] != "ok":
                return e["open"]
            out.append([e["open"][1], e["target"]] if with_paths else e["open"][1])
        return ["ok", out]
    res["openpack"] = members(dirs_ni, True)
    res["pack_simfiles"] = members(dirs, False)
    return res


def agree(io, mo):
    if "__harness_exc__" in io or "__model_decode_error__" in mo:
        return False
    for k in ("dirs", "pack", "pack_name", "openpack", "pack_simfiles"):
        if io[k] != mo[k]:
            return False
    return True


def oracle(c, o):
    """the property restated on the observed listings (independent of the Coq model)"""
    if "__harness_exc__" in o:
        return "harness/library raised %s (%s)" % (o["__harness_exc__"], o.get("msg"))
    for n, (again, fresh) in o.get("again", {}).items():
        if again != fresh:
            return "SimfileDirectory(%r).open() after an earlier open(strict=False) on the same object gives %s..., a fresh object gives %s..." % (n, str(again)[:150], str(fresh)[:150])
    want_pack = []
    for x, isd in o["listings"][""]:
        if isd and any(y.lower().endswith((".sm", ".ssc")) for y, _ in o["listings"]["/" + x]):
            want_pack.append("/pack/" + x)
    if o["pack"] != ["ok", want_pack]:
        return "pack lists %s, immediate sub-directories with a simfile are %s" % (o["pack"], want_pack)
    for n, e in o["dirs"].items():
        names = [x for x, _ in o["listings"]["/" + n if n else ""]]
        sms = [x for x in names if x.lower().endswith(".sm")]
        sscs = [x for x in names if x.lower().endswith(".ssc")]
        base = "/pack" + ("/" + n if n else "")
        dup = (len(sms) > 1 or len(sscs) > 1) and not c["ignore"]
        if dup:
            if e["paths"] != ["err", "duplicate"]:
                return "directory %s has two simfiles of one kind, expected DuplicateSimfileError, got %s" % (n, e["paths"])
            continue
        sm = base + "/" + sms[0] if sms else None
        ssc = base + "/" + sscs[0] if sscs else None
        if e["paths"] != ["ok", [sm, ssc, ssc or sm]]:
            return "directory %s reports %s, expected sm=%s ssc=%s" % (n, e["paths"], sm, ssc)
        if not sms and not sscs and e["open"] != ["err", "notfound"]:
            return "open() on a directory without simfiles gave %s" % (e["open"],)
        if (sms or sscs) and e["open"][0] == "err" and e["open"][1] == "load" and not c["strict"]:
            return "strict=False was not passed through to the loader in directory %s" % n
        if (len(sms) <= 1 and len(sscs) <= 1) and e["opendir"][0] == "ok" and e["opendir"][1][1] != (ssc or sm):
            return "opendir path %s, expected %s" % (e["opendir"][1][1], ssc or sm)
        if (len(sms) <= 1 and len(sscs) <= 1) and e["open"] != (["ok", e["opendir"][1][0]] if e["opendir"][0] == "ok" else e["opendir"]):
            return "opendir and SimfileDirectory.open disagree in %s" % n
    if o["openpack"][0] == "err" and o["openpack"][1] == "load" and not c["strict"]:
        return "openpack did not pass strict=False through"
    # SimfilePack(...).simfiles() and openpack open the same files under the same strictness
    ps = o.get("pack_simfiles")
    if ps is not None and (not c["ignore"] or not any(True for _ in [])):
        if o["openpack"][0] == "ok" and ps[0] == "ok" and ps[1] != [x[0] for x in o["openpack"][1]] and not c["ignore"]:
            return "SimfilePack.simfiles() and openpack opened different simfiles"
        if o["openpack"][0] == "err" and o["openpack"][1] == "load" and ps[0] == "ok":
            return "openpack failed to load a member (strict) but SimfilePack.simfiles() opened the pack quietly"
    # duplicates inside a member directory: the pack-level entry points raise like the directory does
    dup_members = []
    for m in want_pack:
        names = [x for x, _ in o["listings"][m[len("/pack"):]]]
        if len([x for x in names if x.lower().endswith(".sm")]) > 1 or len([x for x in names if x.lower().endswith(".ssc")]) > 1:
            dup_members.append(m)
    if dup_members:
        if o["openpack"][0] == "ok":
            return "openpack opened a pack whose member %s has two simfiles of one kind without DuplicateSimfileError" % dup_members[0]
        if not c["ignore"] and o.get("pack_simfiles", ["err"])[0] == "ok":
            return "SimfilePack.simfiles() opened member %s with two simfiles of one kind without DuplicateSimfileError" % dup_members[0]
    return None


def nontrivial(c, o):
    return isinstance(o, dict) and o.get("pack", [""])[0] == "ok" and len(o["pack"][1]) >= 1


def describe(c):
    return "%s/strict%d/ign%d/enc%s/dirs%d" % (c["fs"], c["strict"], c["ignore"], c["encoding"], len([1 for v in c["tree"].values() if isinstance(v, dict)]))


def shrink(c):
    t = c["tree"]
    for k in list(t):
        yield dict(c, tree={a: b for a, b in t.items() if a != k})
        if isinstance(t[k], dict):
            for k2 in list(t[k]):
                yield dict(c, tree=dict(t, **{k: {a: b for a, b in t[k].items() if a != k2}}))
