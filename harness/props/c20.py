"""C20 - asset lookup: the named file if it exists, else a pattern match, else None."""
import os, random

from ..driver import SKIP
from ..lib import S
from .. import gen_simfile as G
from .. import fsharness as F
from . import c19

ID = "C20"
N_QUICK, N_THOROUGH = 500, 30000
RULE = ("simfile directories built from names that hit, nearly hit and miss each pattern (banner, ...bn, ...bg, cdtitle, jk_..., jacket, albumart, ...-cd, ... disc, "
        "... title, audio extensions) in mixed case, with sub-directories; the simfile's property absent / empty / naming an existing file in another "
        "case / a missing file / a file in a (missing) sub-directory / through '..' and './'; native and in-memory file systems; every asset kind asked "
        "twice; pack directories with 0..n images inside and beside them; compares the returned paths; non-trivial = at least one asset found")
assumptions = c19.assumptions + ["the DISC lookup by name is not claimed (the code reads a DISC key): compared only when the simfile has no DISC key"]
extra_trusted = c19.extra_trusted

KINDS = ["MUSIC", "BANNER", "BACKGROUND", "CDTITLE", "JACKET", "CDIMAGE", "DISC"]
ATTR = {"MUSIC": "music", "BANNER": "banner", "BACKGROUND": "background", "CDTITLE": "cdtitle", "JACKET": "jacket", "CDIMAGE": "cdimage", "DISC": "disc"}
HITS = ["old\\banner.png", "art\\cover-bn.png", "Cafe\u0301-bn.png", "cafe\u0301 banner.PNG", "banner.png", "Song Banner.JPG", "songbn.png", "bn.png", "background.jpg", "song-bg.png", "BG.PNG", "cdtitle.png", "my cdtitle.gif", "jk_song.png",
        "Jacket.png", "albumart.jpg", "song-cd.png", "song disc.png", "song title.png", "song.ogg", "Song.MP3", "audio.wav", "x.oga",
        "Mr. Saxobeat-BG.png", "Mr. Saxobeat bn.png", "Vol.2 jacket.jpg", "ver1.5 CDTitle.gif", "Feat. Someone-cd.png", "St. Elmo Title.png", "a.b.ogg"]
NEAR = ["bann.png", "xbnx.png", "bgx.png", "song-bg2.png", "cdtitl.png", "xjk_song.png", "song-cdx.png", "songdisc.png", "discs.png", "song.og", "song.mp4",
        "banner", "Banner-BG.png", "jk_album-cd.jpg", "banner.ogg", ".bn", "bn", "title.txt", "readme.txt",
        "intro-bg.old.png", "cover bn.v2.png", "side-cd.bak.png", "jk_.x.txt", "banner.png.txt", "previewogg", "Notes_WAV", "backupmp3", "my banner-png", "song-bgxjpg", "jacket_png", "song titlexgif", "mp3", "ogg"]


def rand_dir(rng):
    d = {"song.sm": b""}
    for n in rng.sample(HITS, rng.choice([0, 1, 2, 4, 6])):
        d[n] = b"x"
    for n in rng.sample(NEAR, rng.choice([0, 1, 2, 3])):
        d[n] = b"x"
    if rng.random() < 0.4:
        d["sub"] = {"inner.png": b"x", "Inner Song.ogg": b"x"}
    return d


def rand_props(rng, d):
    props = {}
    names = [n for n in d if not isinstance(d[n], dict)]
    for kind in KINDS[:6]:
        r = rng.random()
        if r < 0.35:
            continue
        if r < 0.45:
            props[kind] = ""
        elif r < 0.65 and names:
            n = rng.choice(names)
            props[kind] = rng.choice([n, n.upper(), n.lower(), n.swapcase()])
        elif r < 0.75:
            props[kind] = rng.choice(["missing.png", "nofile.ogg"])
        elif r < 0.85:
            props[kind] = rng.choice(["sub/inner.png", "SUB/INNER.PNG", "sub/Inner Song.ogg", "nosuchdir/x.png", "sub/missing.png",
                                      "sub/INNER.PNG", "sub/Inner.Png", "sub/inner song.OGG", "./sub/INNER.png", "sub/../sub/Inner.png"])
        elif names:
            n = rng.choice(names)
            props[kind] = rng.choice(["./" + n, "sub/../" + n, "../song/" + n,
                                      n + "/x.png", n + "/old/x.png", n + "/a/b/" + n, "song.sm/old/banner.png"])      # a "sub-directory" that is really a file: missing all the same
    return props


def corpus():
    out = []
    d = {"song.sm": "", "Banner-BG.png": "78", "jk_album-cd.jpg": "78", "banner.ogg": "78", "shared-bg.png": "78"}
    out.append({"fs": "native", "dir": d, "props": {"BACKGROUND": "sub/../shared-bg.png"}, "pack": {"inside": [], "beside": []}})
    out.append({"fs": "mem", "dir": d, "props": {"BACKGROUND": "./shared-bg.png", "BANNER": "missing.png"}, "pack": {"inside": ["b.jpg", "a.png", "c.PNG"], "beside": ["pack.png"]}})
    out.append({"fs": "native", "dir": {"song.sm": "", "x.png": "78"}, "props": {}, "pack": {"inside": [], "beside": ["pack.jpeg", "pack.gif", "other.png"]}})
    sub = {"song.sm": "", "bg.png": "78", "sub": {"inner.png": "78", "Inner Song.ogg": "78"}}
    out.append({"fs": "native", "dir": sub, "props": {"BANNER": "sub/INNER.PNG", "MUSIC": "sub/inner song.OGG"}, "pack": {"inside": [], "beside": []}})     # other case inside a sub-directory
    out.append({"fs": "mem", "dir": sub, "props": {"BACKGROUND": "sub/Inner.Png"}, "pack": {"inside": [], "beside": []}})
    return out


def gen(rng, i, tier):
    d = rand_dir(rng)
    props = rand_props(rng, d)
    pack = {"inside": rng.sample(["a.png", "B.JPG", "c.jpeg", "d.gif", "e.bmp", "f.txt", "z.PNG", "a_png", "thumbsgif", "oldbmp"], rng.choice([0, 0, 1, 2, 4])),
            "beside": rng.sample(["pack.png", "pack.jpg", "pack.bmp", "PACK.PNG", "packx.png", "other.png", "pack-png", "packjpg"], rng.choice([0, 1, 2]))}
    return {"fs": rng.choice(["native", "mem"]), "dir": c19.enc_tree(d), "props": props, "pack": pack, "pack_spelling": rng.choice([None, None, "sep", "dot", "rel", "relsep"]), "dir_spelling": rng.choice([None, None, "sep", "noslash"])}


def build_tree(c):
    song = c19.dec_tree(c["dir"])
    esc = lambda v: v.replace("\\", "\\\\").replace(":", "\\:").replace(";", "\\;")          # MSD escapes: the value read back is the one meant
    sm = "".join("#%s:%s;\n" % (k, esc(v)) for k, v in c["props"].items()) + "#TITLE:t;\n"
    song["song.sm"] = sm.encode("utf-8")
    pack = {"song": song}
    for n in c["pack"]["inside"]:
        pack[n] = b"x"
    return pack


def impl(c):
    from simfile.assets import Assets
    from simfile.dir import SimfilePack, SimfileDirectory
    t = F.Tree(c["fs"], build_tree(c))
    try:
        for n in c["pack"]["beside"]:
            p = t.base + t.sep + n
            if t.kind == "native":
                open(p, "wb").write(b"x")
            else:
                t.fs.writebytes(p, b"x")
        song = t.root + t.sep + "song"
        res = {"listing": t.listdir(song), "sub": (t.listdir(song + t.sep + "sub") if t.isdir(song + t.sep + "sub") else None),
               "pack_listing": t.listdir(t.root), "beside_listing": t.listdir(t.base)}
        song_sp = song + (t.sep if c.get("dir_spelling") == "sep" else "")       # the simfile directory spelled with a trailing separator
        if c.get("dir_spelling") == "noslash" and t.kind == "mem":
            song_sp = song.lstrip("/")                                            # PyFilesystem paths need no leading slash
        a = Assets(song_sp, filesystem=t.fs)
        raw = {k: getattr(a, ATTR[k]) for k in KINDS}
        # the answer is the directory as the caller spelled it, joined with the entry and normalised: it starts the way the caller's spelling does
        stem = song_sp.rstrip("/\\") if len(song_sp) > 1 else song_sp
        res["spelling_kept"] = [k for k, v in raw.items() if v is not None and not v.replace("\\", "/").startswith(stem.replace("\\", "/"))]
        if c.get("dir_spelling") == "noslash" and t.kind == "mem":
            _rel = t.rel
            t.rel = lambda p: _rel(p if p is None or p.startswith("/") else "/" + p)
        first = {k: t.rel(v) for k, v in raw.items()}
        second = {k: t.rel(getattr(a, ATTR[k])) for k in KINDS}
        res["assets"], res["again"] = first, second
        a2 = SimfileDirectory(song_sp, filesystem=t.fs).assets()
        res["via_directory"] = {k: t.rel(getattr(a2, ATTR[k])) for k in KINDS}
        exists = {}
        for k, v in first.items():
            if v is not None:
                p = t.base + v.replace("/", t.sep)
                exists[k] = bool(t.fs.exists(p))
        res["exists"] = exists
        # the pack directory as a caller may spell it: plain, with a trailing separator, with a trailing "/."
        spelled = t.root + {"sep": t.sep, "dot": t.sep + "."}.get(c.get("pack_spelling"), "")
        if c.get("pack_spelling") in ("rel", "relsep") and t.kind == "native":
            # a bare relative name, from inside the directory that holds the pack
            import os
            cwd = os.getcwd()
            os.chdir(t.base)
            try:
                b = SimfilePack(os.path.basename(t.root) + (os.sep if c["pack_spelling"] == "relsep" else ""), filesystem=t.fs).banner()
            finally:
                os.chdir(cwd)
            res["pack_banner"] = t.rel(b if b is None or os.path.isabs(b) else os.path.join(t.base, b))
        else:
            res["pack_banner"] = t.rel(SimfilePack(spelled, filesystem=t.fs).banner())
        return res
    finally:
        t.close()


_cache = {}


def cached_impl(c):
    import json, sys
    k = json.dumps(c, sort_keys=True)
    if k not in _cache:
        if len(_cache) > 2000:
            _cache.clear()
        from ..driver import safe_impl
        _cache[k] = safe_impl(sys.modules[__name__], c)
    return _cache[k]


def norm(parts):
    """posix normpath of /pack/song/<spec> split into (containing dir parts, filename)"""
    import posixpath
    return posixpath.normpath("/".join(parts))


def spec_info(c, o, spec):
    """(filename, listing of the containing directory or None, containing path) as the real path algebra sees it"""
    import posixpath
    full = posixpath.join("/pack/song", spec)
    containing, filename = posixpath.split(full)
    cn = posixpath.normpath(containing)
    listings = {"/pack/song": o["listing"], "/pack": o["pack_listing"], "/": None}
    if o["sub"] is not None:
        listings["/pack/song/sub"] = o["sub"]
    # a containing path that goes through a missing directory is not a directory
    parts = [p for p in containing.split("/") if p]
    cur = ""
    ok = True
    known_dirs = {"/pack", "/pack/song"} | ({"/pack/song/sub"} if o["sub"] is not None else set())
    if c["fs"] == "mem":
        parts = []            # PyFilesystem normalises the path lexically before looking it up; the OS walks it
    for p in parts:
        if p == "..":
            cur = posixpath.dirname(cur) or "/"
        elif p == ".":
            continue
        else:
            cur = cur + "/" + p if cur != "/" else "/" + p
        if cur not in known_dirs and cur != "/":
            ok = False
            break
    return filename, (listings.get(cn) if ok else None), containing


def requests(c):
    o = cached_impl(c)
    if "__harness_exc__" in o:
        return []
    reqs = []
    for k in KINDS:
        spec = c["props"].get(k)
        sp = []
        if spec:
            filename, cl, _ = spec_info(c, o, spec)
            sp = [[filename, [cl] if cl is not None else []]]
        reqs.append([193, k, o["listing"], sp])
    reqs.append([192, o["pack_listing"], "pack", o["beside_listing"]])
    return reqs


def model(c, ans):
    import posixpath
    o = cached_impl(c)
    if not ans:
        return SKIP
    assets = {}
    for k, a in zip(KINDS, ans):
        a = a[1]
        if a[0] == 3:
            return SKIP
        if a[0] == 0:
            _, _, containing = spec_info(c, o, c["props"][k])
            assets[k] = posixpath.normpath(posixpath.join(containing, S(a[1])))
        elif a[0] == 1:
            assets[k] = posixpath.normpath(posixpath.join("/pack/song", S(a[1])))
        else:
            assets[k] = None
    b = ans[len(KINDS)][1]
    banner = "/pack/" + S(b[1]) if b[0] == 0 else "/" + S(b[1]) if b[0] == 1 else None
    return {"assets": assets, "again": assets, "via_directory": assets, "pack_banner": banner}


def agree(io, mo):
    if "__harness_exc__" in io or "__model_decode_error__" in mo:
        return False
    import posixpath
    for k in ("assets", "again", "via_directory"):
        if io[k] == mo[k]:
            continue
        for kind in KINDS:
            a, b = io[k].get(kind), mo[k].get(kind)
            if a == b:
                continue
            # "Which of several matching entries is returned depends on listing order and is not claimed": another entry of
            # the same directory that matches the pattern is as good as the model's (the named-file clause is the oracle's)
            if a is None or b is None or posixpath.dirname(a) != posixpath.dirname(b):
                return False
            if not (matches(kind, posixpath.basename(a)) and matches(kind, posixpath.basename(b))):
                return False
    return io["pack_banner"] == mo["pack_banner"]


import re
PATTERNS = {"BANNER": ["banner", "bn$"], "BACKGROUND": ["background", "bg$"], "CDTITLE": ["cdtitle"], "JACKET": ["^jk_", "jacket", "albumart"], "CDIMAGE": ["-cd$"],
            "DISC": [" disc$", " title$"]}
AUDIO = (".mp3", ".oga", ".ogg", ".wav")
IMAGE = [".png", ".jpg", ".jpeg", ".gif", ".bmp"]


def matches(kind, name):
    root = os.path.splitext(name)[0].lower()
    if kind == "MUSIC":
        return name.lower().endswith(AUDIO)
    return any(re.search(p, root) for p in PATTERNS[kind])


def oracle(c, o):
    import posixpath
    if "__harness_exc__" in o:
        return "harness/library raised %s (%s)" % (o["__harness_exc__"], o.get("msg"))
    if o.get("spelling_kept"):
        return "the %s answer is not the directory as given joined with the entry (normalised): it does not start the way the caller's directory does" % o["spelling_kept"][0]
    for k in KINDS:
        got = o["assets"][k]
        if o["again"][k] != got:
            return "asking %s again returned %s after %s" % (k, o["again"][k], got)
        if got is not None and not o["exists"].get(k):
            return "%s lookup returned a path that does not exist: %s" % (k, got)
        if got is not None and got != posixpath.normpath(got):
            return "%s path is not normalized: %s" % (k, got)
        spec = c["props"].get(k)
        named = None
        if spec and k != "DISC":
            filename, cl, containing = spec_info(c, o, spec)
            if cl is not None:
                hit = [x for x in cl if x.lower() == filename.lower()]
                if hit:
                    named = {posixpath.normpath(posixpath.join(containing, x)) for x in hit}
        if named:
            if got not in named:
                return "%s names an existing file (%s) but the answer is %s" % (k, sorted(named), got)
            continue
        cands = [x for x in o["listing"] if matches(k, x)]
        if not cands and got is not None:
            return "%s: no entry matches the pattern but the answer is %s" % (k, got)
        if cands and (got is None or posixpath.basename(got) not in cands or posixpath.dirname(got) != "/pack/song"):
            return "%s: entries %s match the pattern but the answer is %s" % (k, cands, got)
    # pack banner
    inside = o["pack_listing"]
    want = None
    for e in IMAGE:
        hit = [x for x in inside if x.lower().endswith(e)]
        if hit:
            want = {"/pack/" + x for x in hit}
            break
    if want is None:
        for e in IMAGE:
            if "pack" + e in o["beside_listing"]:
                want = {"/pack" + e}
                break
    if (want is None) != (o["pack_banner"] is None) or (want is not None and o["pack_banner"] not in want):
        return "pack banner %s, expected one of %s" % (o["pack_banner"], want)
    return None


def nontrivial(c, o):
    return isinstance(o, dict) and any(v is not None for v in o.get("assets", {}).values())


def describe(c):
    return "%s/props%d/files%d" % (c["fs"], len(c["props"]), len(c["dir"]))


def shrink(c):
    for k in list(c["props"]):
        yield dict(c, props={a: b for a, b in c["props"].items() if a != k})
    for k in list(c["dir"]):
        if k != "song.sm":
            yield dict(c, dir={a: b for a, b in c["dir"].items() if a != k})
