"""C01 - SM simfile: serialize then parse gives back the same simfile."""
from ..driver import SKIP
from ..lib import S
from .. import gen_simfile as G

ID = "C01"
N_QUICK, N_THOROUGH = 1500, 80000
RULE = ("edit scripts (0..40 ops: set/del by key or attribute, chart add/remove/reorder/replace (also the same chart object attached again), field and extradata edits) applied to "
        "SMSimfile.blank(), an empty simfile and the corpus SM file; values from a metacharacter-dense alphabet + Unicode, inside the property's "
        "domain (msdparser escaping gaps excluded); compares str(sf), strict reload, second serialisation, auto-detection; K1 probes separately; "
        "non-trivial = at least one property value containing a metacharacter or at least one chart")
assumptions = ["the model's input object is read from the implementation's object after the edits (the edit operations themselves are C18's subject)",
               "msdparser's 4096-character chunking is transparent on the generated texts (all < 4096 characters except the corpus)"]
extra_trusted = ["msdparser 2.0.0 is modelled (Model/Msd.v), not verified: its own correspondence runs under C03"]


def corpus():
    out = [{"start": "blank", "ops": []}, {"start": "empty", "ops": []}, {"start": "corpus", "ops": []}]
    out.append({"start": "empty", "ops": [["set", "TITLE", None], ["set", "ATTACKS", None], ["set", "DISPLAYBPM", ":240"], ["set", "ATTACKS", ":LEN=0.5:MODS=drunk"]]})
    out.append({"start": "blank", "ops": [["addchart", ["dance-single", "", "Easy", "1", "0,0", "0000\n0000", ["x", "y:z"]]], ["extradata", 0, ["q"]]]})
    out.append({"start": "empty", "ops": [["addchart", ["dance-single", "", "Easy", "1", "0,0", "0000", []]], ["addchart", ["dance-double", "", "Hard", "9", "0,0", "00000000", []]],
                                          ["samechart", 0], ["samechart", 1], ["samechart", 0]]})     # one chart object at several positions of the list
    out.append({"start": "empty", "ops": [["addchart", ["a", "b", "c", "d", "e", "0", ["x"]]], ["ser"], ["extradata", 0, ["y", "z"]], ["ser"], ["extradata", 0, []]]})
    out.append({"start": "empty", "ops": [["set", "A", "x:y;z\\w//c\nd"], ["set", "B", ""], ["addchart", ["a", "b", "c", "d", "e", "", []]]]})
    # note data and fields that are their own strip() yet hold blanks before inner line breaks, other line breaks, a byte order mark
    out.append({"start": "empty", "ops": [["addchart", ["dance-single", "d", "Easy", "1", "0,0", "0000", []]], ["field", 0, "notes", "1000 \n0100\r\n0010\x0b0001\u2028,  \n0000"],
                                          ["field", 0, "description", "a \n b"], ["addchart", ["dance-single", "a \n b", "Easy", "1", "0,0", "1000 \n0100", [], [5, 1, 0, 2, 3, 4]]]]})
    out.append({"start": "blank", "ops": [["set", "GENRE", "zero\ufeffwidth"], ["set", "X\ufeff", "\ufeff"], ["addchart", ["a", "b", "c", "d", "e", "00\ufeff00", ["\ufeff"]]]]})
    # a chart whose steps type is the word NOTES, with and without extra components
    out.append({"start": "empty", "ops": [["addchart", ["NOTES", "desc", "Hard", "9", "0,0", "0000", ["extra"]]], ["addchart", ["notes", "d", "Easy", "1", "0", "1", []]]]})
    return out


def rand_chart(rng):
    spec = [G.stripped(rng) for _ in range(5)] + [G.rand_notes(rng, True), [G.rand_value(rng) for _ in range(rng.choice([0, 0, 0, 1, 3]))]]
    if rng.random() < 0.15:
        order = list(range(6)); rng.shuffle(order)
        spec.append(order)
    return spec


def gen(rng, i, tier):
    ops = []
    for _ in range(rng.choice([0, 1, 2, 4, 8, 20, 40])):
        r = rng.random()
        if r < 0.35:
            ops.append(["set", G.rand_key(rng, G.SM_EDIT_KEYS), None if rng.random() < 0.08 else G.rand_value(rng)])
        elif r < 0.40:
            ops.append(["ser"])            # an intermediate serialisation must not influence later ones
        elif r < 0.45:
            ops.append(["del", G.rand_key(rng, G.SM_EDIT_KEYS)])
        elif r < 0.55:
            ops.append(["attr", rng.choice(["title", "artist", "stops", "bgchanges", "displaybpm", "attacks", "offset"]), G.rand_value(rng)])
        elif r < 0.7:
            ops.append(["addchart", rand_chart(rng)])
        elif r < 0.75:
            ops.append(["delchart", rng.randrange(4)])
        elif r < 0.8:
            ops.append(["reverse"])
        elif r < 0.85:
            ops.append(["replacechart", rng.randrange(4), rand_chart(rng)])
        elif r < 0.95:
            ops.append(["field", rng.randrange(4), rng.choice(["stepstype", "description", "difficulty", "meter", "radarvalues", "notes"]), None])
        else:
            ops.append(["extradata", rng.randrange(4), [G.rand_value(rng) for _ in range(rng.choice([0, 1, 2]))]])
            if rng.random() < 0.3:
                ops.append(rng.choice([["extradata", rng.randrange(4), [], "keep the empty list"], ["extrapop", rng.randrange(4)], ["extrapop", rng.randrange(4)],
                                       ["extraappend", rng.randrange(4), G.rand_value(rng)]]))
        if rng.random() < 0.03:
            ops.append(["extraappend", rng.randrange(4), G.rand_value(rng)])
        if rng.random() < 0.04:
            ops.append(["samechart", rng.randrange(4)])      # the same chart object attached once more: the list has one more chart
        if rng.random() < 0.08:
            if rng.random() < 0.5:
                ops.append(["ser"])
            ops.append(rng.choice([["pop", G.rand_key(rng, G.SM_EDIT_KEYS)], ["popitem"], ["move", G.rand_key(rng, G.SM_EDIT_KEYS), rng.random() < 0.5],
                                   ["cmove", rng.randrange(4), rng.choice(["STEPSTYPE", "DESCRIPTION", "DIFFICULTY", "METER", "RADARVALUES", "NOTES"]), rng.random() < 0.5]]))
    for op in ops:
        if op[0] == "field":
            op[3] = G.rand_notes(rng, True) if op[2] == "notes" else G.stripped(rng)
    return {"start": rng.choice(["blank"] * 8 + ["empty"] * 7 + ["corpus"]), "ops": ops}


FIELDS = ["stepstype", "description", "difficulty", "meter", "radarvalues", "notes"]


def mk_chart(spec):
    from simfile.sm import SMChart
    if len(spec) > 7 and spec[7]:
        # built empty and filled in another order: the mapping's key order differs, the chart is the same chart
        c = SMChart()
        for i in spec[7]:
            setattr(c, FIELDS[i], spec[i].strip())
    else:
        c = SMChart.from_msd(spec[:6])
    if spec[6]:
        c.extradata = list(spec[6])
    return c


def build(c):
    import simfile
    from simfile.sm import SMSimfile
    if c["start"] == "blank":
        sf = SMSimfile.blank()
    elif c["start"] == "empty":
        sf = SMSimfile(string="")
    else:
        sf = SMSimfile(string=max([t for f, t in G.corpus_files() if f.lower().endswith(".sm")], key=len))
    for op in c["ops"]:
        try:
            if op[0] == "ser":
                str(sf)
            elif op[0] == "set":
                sf[op[1]] = op[2]
            elif op[0] == "del":
                del sf[op[1]]
            elif op[0] == "attr":
                setattr(sf, op[1], op[2])
            elif op[0] == "addchart":
                sf.charts.append(mk_chart(op[1]))
            elif op[0] == "delchart":
                del sf.charts[op[1]]
            elif op[0] == "samechart":
                sf.charts.append(sf.charts[op[1]])
            elif op[0] == "reverse":
                sf.charts.reverse()
            elif op[0] == "replacechart":
                sf.charts[op[1]] = mk_chart(op[2])
            elif op[0] == "field":
                setattr(sf.charts[op[1]], op[2], op[3])
            elif op[0] == "extradata":
                sf.charts[op[1]].extradata = list(op[2]) if (op[2] or len(op) > 3) else None     # [] and None are both "no extras"
            elif op[0] == "pop":
                sf.pop(op[1], None)
            elif op[0] == "popitem":
                if len(sf) > 1:
                    sf.popitem()
            elif op[0] == "move":
                sf.move_to_end(op[1], last=op[2])
            elif op[0] == "cmove":
                sf.charts[op[1]].move_to_end(op[2], last=op[3])
            elif op[0] == "extrapop":
                ex = sf.charts[op[1]].extradata
                if ex:
                    ex.pop()
            elif op[0] == "extraappend":            # extend whatever list of extra components the chart has, in place; start one when it has none
                ex = sf.charts[op[1]].extradata
                if ex is None:
                    sf.charts[op[1]].extradata = [op[2]]
                else:
                    ex.append(op[2])
        except (KeyError, IndexError):
            pass
    return sf


def in_domain(o):
    """the property's domain restated on the final object: upper-case keys other than NOTES, stripped chart fields, and no
    component in msdparser's escaping gaps (K1) *given the recovery flag the tokenizer really has at that point of the text*"""
    for k, v in o[1]:
        if "#" in k or k != k.upper() or k == "NOTES":
            return False
    ok, l = G.safe_props(False, o[1])
    if not ok:
        return False
    l = True
    for ch in o[2]:
        if any(f != f.strip() for f in ch[0]):
            return False
        comps = ["NOTES"] + ["\n     " + f for f in ch[0][:5]] + ["\n" + ch[0][5] + "\n"] + ch[1]
        ok, l = G.safe_param(l, comps)
        if not ok:
            return False
        l = True
    return True


_cache = {}


def key(c):
    import json
    return json.dumps(c, sort_keys=True)


def final_obs(c):
    k = key(c)
    if k not in _cache:
        if len(_cache) > 20000:
            _cache.clear()
        _cache[k] = G.sf_obs(build(c))
    return _cache[k]


def impl(c):
    import simfile
    from simfile.sm import SMSimfile
    sf = build(c)
    o = G.sf_obs(sf)
    _cache[key(c)] = o
    text = str(sf)
    import io
    buf = io.StringIO(); sf.serialize(buf)
    re = G.guarded(lambda: G.sf_obs(SMSimfile(string=text)))
    det = G.guarded(lambda: G.sf_obs(simfile.loads(text)))
    # the same text handed over as the lines of a file (a list, then an iterator): the loader joins them back together
    lines = text.splitlines(keepends=True)
    det_lines = [G.guarded(lambda: G.sf_obs(simfile.load(lines))), G.guarded(lambda: G.sf_obs(simfile.load(iter(lines))))]
    text2 = G.guarded(lambda: str(SMSimfile(string=text)))
    eq = G.guarded(lambda: bool(SMSimfile(string=text) == sf and sf == SMSimfile(string=text) and not (SMSimfile(string=text) != sf)))
    if eq[0] != "ok":
        eq = ["ok", False]          # the reload itself failed: reported by "reload"
    return {"sf": o, "text": text, "ser_file_same": buf.getvalue() == text, "reload": re, "detect": det, "text2": text2, "eq": eq,
            "lines_same": det_lines[0] == det and det_lines[1] == det}


def requests(c):
    return [[24, G.enc_sm(final_obs(c))]]


def model(c, ans):
    a = ans[0][1]
    o = final_obs(c)
    re = G.dec_lres(a[1], G.dec_sm)
    det = G.dec_lres(a[2], G.dec_simfile)
    t2 = ["ok", S(a[3][0])] if a[3] else ["err", re[1]]
    return {"sf": o, "text": S(a[0]), "ser_file_same": True, "reload": re, "detect": det, "text2": t2, "lines_same": True, "eq": ["ok", bool(re[0] == "ok" and re[1][0] == o[0] and re[1][1] == o[1] and [ch[0] for ch in re[1][2]] == [ch[0] for ch in o[2]])]}     # the library's == looks at properties and the six chart fields, not at extra components


def oracle(c, o):
    if "__harness_exc__" in o:
        return "library raised %s (%s)" % (o["__harness_exc__"], o.get("msg"))
    if not in_domain(o["sf"]):
        return None
    if o["reload"] != ["ok", o["sf"]]:
        return "strict reload of str(sf) gives %s, the simfile is %s" % (str(o["reload"])[:300], str(o["sf"])[:300])
    if o["text2"] != ["ok", o["text"]]:
        return "serialising the reloaded simfile does not reproduce the text"
    if o.get("eq") != ["ok", True]:
        return "the reloaded simfile does not compare equal (==) to the original: %s" % (o.get("eq"),)
    first = o["sf"][1][0][0] if o["sf"][1] else None
    if first != "VERSION" and o["detect"] != ["ok", o["sf"]]:
        return "auto-detection does not load it as the same SM simfile: %s" % (str(o["detect"])[:200],)
    if not o["ser_file_same"]:
        return "serialize(file) and str() differ"
    if o.get("lines_same") is False:
        return "the serialised text handed to load() as a list / iterator of its lines does not load as it does from the string"
    # chart parameter shape and unescaped multi-value components, read through the tokenizer
    from msdparser import parse_msd
    ps = [p for p in parse_msd(string=o["text"])]
    charts = [p for p in ps if p.key == "NOTES"]
    for p, ch in zip(charts, o["sf"][2]):
        if [x.strip() for x in p.components[1:7]] != ch[0] or list(p.components[7:]) != ch[1]:
            return "NOTES parameter components %s are not the chart's fields %s" % (p.components[1:], ch)
    for k, v in o["sf"][1]:
        if k in ("ATTACKS", "DISPLAYBPM") and v is not None:
            p = [p for p in ps if p.key == k][0]
            if list(p.components[1:]) != v.split(":"):
                return "%s is not written as colon-delimited components" % k
    return None


def nontrivial(c, o):
    if not isinstance(o, dict) or "sf" not in o:
        return False
    return bool(o["sf"][2]) or any(v and any(ch in v for ch in G.META) for k, v in o["sf"][1])


def describe(c):
    return "%s/ops%d" % (c["start"], 10 * (len(c["ops"]) // 10))


def shrink(c):
    ops = c["ops"]
    if c["start"] != "empty":
        yield dict(c, start="empty")
    for i in range(len(ops)):
        yield dict(c, ops=ops[:i] + ops[i + 1:])


def known_probes():
    from simfile.sm import SMSimfile

    def k1():
        bad = 0
        for v in ("a\n#b", "x\n:#y", "a///b", "\n\\#"):
            sf = SMSimfile(string=""); sf["K"] = v
            try:
                if G.sf_obs(SMSimfile(string=str(sf), strict=False)) != G.sf_obs(sf):
                    bad += 1
            except Exception:
                bad += 1
        return bad > 0
    return [("K1", "msdparser escaping gaps: value with '#' after a line break, '///' (dependency; excluded by the property)", k1)]
