"""C05 - mutate saves exactly the edited simfile, in the encoding it was read in."""
import random

from ..driver import SKIP
from ..lib import S
from .. import gen_simfile as G
from .. import fsharness as F

ID = "C05"
N_QUICK, N_THOROUGH = 500, 30000
RULE = ("file contents drawn from each code page's decode image (utf-8, cp1252, cp932, cp949; including byte strings valid under several encodings) and "
        "undecodable byte strings x {.sm,.ssc} (input names with further dots too; .sm files that begin with VERSION, .ssc files that do not) x with/without output and backup names (incl. clashing backup names) x custom try_encodings orders and "
        "explicit encoding= x native temp directory and in-memory PyFilesystem x edit scripts in the block; compares detected encoding, loaded simfile, "
        "final directory contents (names and bytes) and the escaping exception; then a no-op mutate on the written file; non-trivial = block exits normally")
assumptions = ["Python's codecs decide what 'decodes' means; text-mode newline translation is the interpreter's (values contain no bare CR)",
               "contents are drawn from the decode image of each code page, where encode(decode(b)) decodes to the same text (checked exhaustively in the thorough tier)"]
extra_trusted = ["PyFilesystem2 MemoryFS, io.open, tempfile"]


def corpus():
    out = []
    # half-width katakana: valid cp932 and cp1252, not utf-8 (custom order decides)
    out.append({"fmt": "sm", "data": ("#TITLE:ｱｲｳ;\n#BPMS:0.000=120.000;\n".encode("cp932")).hex(), "try": ["utf-8", "cp932", "cp1252", "cp949"], "explicit": None,
                "output": False, "backup": None, "ops": [["set", "ARTIST", "x"]], "fs": "native", "seed": 1})
    out.append({"fmt": "sm", "data": "#TITLE:a;#ARTIST:b;\n#NOTES:a:b:c:d:e:\n0000\n;".encode().hex(), "try": None, "explicit": None,
                "output": True, "backup": "clash_input", "ops": [], "fs": "native", "seed": 2})
    for bk in ("clash_input", "clash_output", "ok"):
        out.append({"fmt": "ssc", "data": "#VERSION:0.83;\n#TITLE:caf\u00e9;\n".encode("cp1252").hex(), "try": None, "explicit": None,
                    "output": True, "backup": bk, "ops": [["attr", "artist", "x"]], "fs": "mem", "seed": 3})
    out.append({"fmt": "sm", "data": F.undecodable(random.Random(5)).hex(), "try": None, "explicit": None, "output": False, "backup": None, "ops": [], "fs": "native", "seed": 4})
    # a file of zero bytes, and files holding only blanks, a byte order mark or a comment: they decode, so they are simfiles without properties
    for fmt in ("sm", "ssc"):
        for data in (b"", b"\n", b"\xef\xbb\xbf", b"// nothing here\n"):
            for bk, fsk in ((None, "native"), ("ok", "mem")):
                out.append({"fmt": fmt, "data": data.hex(), "try": None, "explicit": None, "output": False, "backup": bk, "ops": [["attr", "title", "now it has one"]], "fs": fsk, "seed": 6})
    # names with more than one dot, and content that a sniffer would take for the other format
    for stem in ("Mr. Saturn", "v1.2", "a.ssc", "b.sm"):
        out.append({"fmt": "sm", "stem": stem, "data": b"#VERSION:0.83;\n#TITLE:a;\n#NOTES:a:b:c:d:e:\n0000\n;\n".hex(), "try": None, "explicit": None,
                    "output": False, "backup": "ok", "ops": [], "fs": "native", "seed": 7})
        out.append({"fmt": "ssc", "stem": stem, "data": b"#TITLE:a;\n#NOTEDATA:;\n#NOTES:0000\n;\n".hex(), "try": None, "explicit": None,
                    "output": False, "backup": None, "ops": [["attr", "title", "b"]], "fs": "mem", "seed": 8})
    return out


def gen(rng, i, tier):
    fmt = rng.choice(["sm", "ssc"])
    codec = rng.choice(F.DEFAULT_ENCODINGS)
    seed = rng.randrange(1, 1 << 30)
    r = random.Random(seed)
    if rng.random() < 0.08:
        data = F.undecodable(r)
    else:
        data = F.simfile_text(r, fmt, codec).encode(codec)
        if rng.random() < 0.12:
            # a chartless file that ends on its last character, a non-ASCII one: no terminator, no line break (what an earlier encoding of
            # the tried list may see as a truncated sequence)
            head = ("#VERSION:0.83;\n" if fmt == "ssc" and rng.random() < 0.5 else "") + "#TITLE:%s;\n#BPMS:0.000=120.000;\n#GENRE:" % F.rand_str(r, codec, 3)
            data = (head + F.rand_str(r, codec, 2)).encode(codec) + rng.choice(["\u00e9".encode("cp1252"), F.rand_str(r, codec, 1).encode(codec)])
    if fmt == "sm" and rng.random() < 0.12:
        data = b"#VERSION:0.83;\n" + data            # an SM file may carry a VERSION property: the name decides the format, not the content
    tr = None
    if rng.random() < 0.3:
        tr = list(F.DEFAULT_ENCODINGS); rng.shuffle(tr)
        tr = tr[: rng.randrange(1, 5)]
    ops = []
    # edits must be encodable in the encoding that will be *detected* (a cp949 file may well be read as cp1252)
    det = next((e for e in (tr or F.DEFAULT_ENCODINGS) if F.text_mode_decode(data, e) is not None), "utf-8")
    codec = det
    for _ in range(rng.choice([0, 1, 2, 4])):
        ops.append(rng.choice([["attr", "title", F.rand_str(r, codec)], ["set", "CREDIT", F.rand_str(r, codec)], ["del", "ARTIST"], ["set", "SUBTITLE", None],
                               ["dupchart"], ["delchart"], ["attr", "artist", ""], ["extra", rng.choice(["assign", "extend"]), rng.choice([["x"], ["a", "b"], [""]])],
                               ["attr", "attacks", rng.choice(["  TIME=1.5:LEN=2 : MODS=drunk\n:  TIME=3:END=4:MODS=tipsy", "TIME=1:LEN=2:MODS=a", ""])],
                               ["attr", "displaybpm", rng.choice(["120 : 240", " 150 ", "90:180", "*"])], ["set", "GENRE", "  padded value \n"],
                               ["notes", rng.choice(["1000\n0:00", "10;0\n0000", "00\\00\n0001", "0000 // beat 1\n0000", "{tornado:1.5}0\n0000"])]]))
    return {"fmt": fmt, "data": data.hex(), "try": tr, "explicit": rng.choice([None, None, None, det, "utf-8"]), "output": rng.choice([False, False, False, True, True, "same"]),
            "backup": rng.choice([None, None, "ok", "ok", "clash_input", "clash_output"]), "ops": ops, "fs": rng.choice(["native", "mem"]), "seed": seed,
            "stem": rng.choice(["in", "in", "in", "Mr. Saturn", "v1.2", "a.ssc", "b.sm", "Vol. 2 (feat. X)"])}


def parse_as(fmt, path, enc, fsys):
    """what is on disk, read as text in the given encoding and parsed in the format of the file mutate was given (a backup
    name such as in.ssc.bak carries no format of its own)"""
    from simfile.sm import SMSimfile
    from simfile.ssc import SSCSimfile
    with fsys.open(path, "r", encoding=enc) as f:
        text = f.read()
    return (SSCSimfile if fmt == "ssc" else SMSimfile)(string=text)


def inname(c):
    """the input file's own name: mostly in.<fmt>; sometimes a name with further dots in it (the format is what follows the LAST dot)"""
    return c.get("stem", "in") + "." + c["fmt"]


def names(c, sc):
    out = sc.input if c["output"] == "same" else sc.path("out." + c["fmt"]) if c["output"] else None      # "same": the input's own name given as the output name
    bak = {None: None, "ok": sc.path(inname(c) + ".bak"), "clash_input": sc.input, "clash_output": out or sc.input}[c["backup"]]
    return out, bak


def impl(c):
    import simfile
    data = bytes.fromhex(c["data"])
    sc = F.Scenario(c["fs"], inname(c), data)
    try:
        fsys = F.FaultFS(sc.inner)
        out, bak = names(c, sc)
        encs = c["try"] or F.DEFAULT_ENCODINGS
        res = {}
        kw = {"filesystem": fsys}
        if c["try"]:
            kw["try_encodings"] = c["try"]

        def opened():
            sf, enc = simfile.open_with_detected_encoding(sc.input, **kw)
            return [encs.index(enc), G.sf_obs(sf)]
        res["open"] = G.guarded(opened)
        if c["explicit"]:
            res["open_explicit"] = G.guarded(lambda: G.sf_obs(simfile.open(sc.input, encoding=c["explicit"], filesystem=fsys)))
        entry = exitobs = None
        exc = None
        try:
            with simfile.mutate(sc.input, output_filename=out, backup_filename=bak, **kw) as sf:
                entry = G.sf_obs(sf)
                F.apply_ops(sf, c["ops"])
                exitobs = G.sf_obs(sf)
        except BaseException as e:
            exc = type(e).__name__
        res["exc"] = exc
        res["files"] = sc.snapshot()
        res["entry"], res["exit"] = entry, exitobs
        # read back what was written, in the detected encoding
        if exc is None and res["open"][0] == "ok":
            enc = encs[res["open"][1][0]]
            res["out_parses_to"] = G.guarded(lambda: G.sf_obs(simfile.open(out or sc.input, encoding=enc, filesystem=fsys)))
            if bak:
                res["bak_parses_to"] = G.guarded(lambda: G.sf_obs(parse_as(c["fmt"], bak, enc, fsys)))
            before2 = sc.snapshot()
            try:
                with simfile.mutate(out or sc.input, try_encodings=[enc], filesystem=fsys) as sf2:
                    pass
                res["idempotent"] = sc.snapshot() == before2
            except BaseException as e:
                res["idempotent"] = type(e).__name__
        return res
    finally:
        sc.close()


def enc_simfile(o):
    return [0, G.enc_sm(o)] if o[0] == "SM" else [1, G.enc_ssc(o)]


STALE = b"#TITLE:left by an earlier run;\n"


def build_request(c, root_input, out, bak, body, bad_chars, fault):
    data = bytes.fromhex(c["data"])
    encs = c["try"] or F.DEFAULT_ENCODINGS
    row = [F.text_mode_decode(data, e, c["fs"]) for e in encs]
    files = [[root_input, [0, 0]]]
    table = [[0, [[] if t is None else [t] for t in row]]]
    if c.get("stale_bak") and bak is not None and bak != root_input and bak != out:
        files.append([bak, [0, 1]])               # a file already sitting at the backup path (symbolic content 1)
        table.append([1, [[] for _ in encs]])
    return [50, True, root_input, [] if out is None else [out], [] if bak is None else [bak], len(encs), files,
            table, body, bad_chars, [] if fault is None else [fault]]


_impl_cache = {}


def cached_impl(c):
    import json
    k = json.dumps(c, sort_keys=True)
    if k not in _impl_cache:
        if len(_impl_cache) > 3000:
            _impl_cache.clear()
        from ..driver import safe_impl
        import sys
        _impl_cache[k] = safe_impl(sys.modules[__name__], c)
    return _impl_cache[k]


def paths(c):
    # the scenario root differs per run on the native file system: the model works on canonical names, mapped back when comparing
    root = "/song"
    inp = root + "/" + inname(c)
    out = inp if c["output"] == "same" else root + "/out." + c["fmt"] if c["output"] else None
    bak = {None: None, "ok": inp + ".bak", "clash_input": inp, "clash_output": out or inp}[c["backup"]]
    return inp, out, bak


def requests(c):
    o = cached_impl(c)
    inp, out, bak = paths(c)
    if "__harness_exc__" in o or o.get("exit") is None:
        body = [1]      # never reached or raised: the model is told the body cancels; only the pre-body part is compared
        if o.get("exc") not in (None,) and o.get("entry") is not None:
            body = [2, 1]
    else:
        body = [0, enc_simfile(o["exit"])]
    reqs = [build_request(c, inp, out, bak, body, [], None)]
    if c["explicit"]:
        c2 = dict(c, **{"try": [c["explicit"]]})
        reqs.append(build_request(c2, inp, None, None, [1], [], None))
    return reqs


EXN = {1: "UnicodeDecodeError", 2: "load", 3: "FileNotFoundError", 4: "ValueError", 5: "serialize", 6: "UnicodeEncodeError", 7: "OSError", 9: "UnicodeError"}


def decode_content(x, data, encs):
    if x[0] == 0:
        return STALE.hex() if (len(x) > 1 and x[1] == 1) else data.hex()
    if x[0] == 2:
        return ""
    return S(x[2]).encode(encs[x[1]]).hex()


def canon_files(files):
    """replace the run-specific root by /song"""
    out = {}
    for p, v in files.items():
        out["/song/" + p.replace("\\", "/").rsplit("/", 1)[1]] = v
    return out


def model(c, ans):
    o = cached_impl(c)
    data = bytes.fromhex(c["data"])
    encs = c["try"] or F.DEFAULT_ENCODINGS
    a = ans[0][1]
    files = {S(p): decode_content(x, data, encs) for p, x in a[0]}
    exc = None if a[1] == [] else (EXN.get(a[1][0]) or F.EXC_BY_ID.get(a[1][1] if len(a[1]) > 1 else 0))
    det = a[2]
    res = {"files": files, "exc": exc}
    if det[0] == 0:
        res["open"] = ["ok", [det[1], G.dec_simfile(det[2])]]
    else:
        res["open"] = ["err", EXN.get(det[1][0], "?")]
    if c["explicit"]:
        d2 = ans[1][1][2]
        res["open_explicit"] = ["ok", G.dec_simfile(d2[2])] if d2[0] == 0 else ["err", EXN.get(d2[1][0], "?")]
    return res


LOADERR = ("MSDParserError", "ValueError", "AssertionError", "stray", "value", "backslash")


def norm_exc(e):
    return "load" if e in LOADERR else e


def agree(io, mo):
    if "__harness_exc__" in io or "__model_decode_error__" in mo:
        return False
    if canon_files(io["files"]) != mo["files"]:
        return False
    ie = io["exc"]
    if mo["exc"] == "load":
        if ie not in ("MSDParserError", "ValueError", "AssertionError"):
            return False
    elif mo["exc"] == "ValueError":
        if ie != "ValueError":
            return False
    elif ie != mo["exc"]:
        return False
    for k in ("open", "open_explicit"):
        if k in mo:
            a, b = io.get(k), mo[k]
            if a is None:
                return False
            if a[0] == "err" and b[0] == "err":
                if norm_exc(a[1]) != norm_exc(b[1]) and not (b[1] == "UnicodeDecodeError" and a[1] == "UnicodeDecodeError"):
                    return False
            elif a != b:
                return False
    return True


def oracle(c, o):
    if "__harness_exc__" in o:
        return "harness/library raised %s (%s)" % (o["__harness_exc__"], o.get("msg"))
    data = bytes.fromhex(c["data"])
    encs = c["try"] or F.DEFAULT_ENCODINGS
    first = next((i for i, e in enumerate(encs) if F.text_mode_decode(data, e) is not None), None)
    files = canon_files(o["files"])
    inp, out, bak = paths(c)
    before = {inp: c["data"]}
    if c["backup"] in ("clash_input", "clash_output"):
        if o["exc"] != "ValueError" or files != before:
            return "backup name equal to input/output must be refused before anything is written: exc=%s files=%s" % (o["exc"], sorted(files))
        return None
    if c["explicit"] and "open_explicit" in o:
        dec = F.text_mode_decode(data, c["explicit"])
        if dec is None and o["open_explicit"] != ["err", "UnicodeDecodeError"]:
            return "open(encoding=%s): the file does not decode under it, expected UnicodeDecodeError, got %s" % (c["explicit"], str(o["open_explicit"])[:120])
        if dec is not None and o["open_explicit"][0] == "err" and o["open_explicit"][1] == "UnicodeDecodeError":
            return "open(encoding=%s): the file decodes under it but UnicodeDecodeError was raised" % c["explicit"]
    if first is None:
        if o["open"] != ["err", "UnicodeDecodeError"] or o["exc"] != "UnicodeDecodeError" or files != before:
            return "no tried encoding decodes the file: expected UnicodeDecodeError and an untouched directory, got %s / %s" % (o["open"], o["exc"])
        return None
    if o["open"][0] == "ok" and o["open"][1][0] != first:
        return "detected encoding %s, the first that decodes the whole file is %s" % (encs[o["open"][1][0]], encs[first])
    if o["open"] == ["err", "UnicodeDecodeError"]:
        return "the whole file decodes as %s, yet opening it raised UnicodeDecodeError" % encs[first]
    if o["open"][0] != "ok":
        return None if o["exc"] is not None and files == before else "open failed (%s) but mutate did not fail cleanly" % o["open"][1]
    # "loads exactly that decoded text": the documented loading rules (C03's, stated on msdparser's tokens) applied to the text-mode contents
    doc = doc_loaded(c, F.text_mode_decode(data, encs[first], c["fs"]))
    if doc is not None and o["open"][1][1] != doc:
        return "open() loaded %s..., the loading rules on the decoded text give %s..." % (str(o["open"][1][1])[:300], str(doc)[:300])
    if o["exc"] is not None:
        return "block exited normally but mutate raised %s" % o["exc"]
    want_names = {inp, out or inp} | ({bak} if bak else set())
    if set(files) != want_names:
        return "files after mutate: %s, expected %s" % (sorted(files), sorted(want_names))
    if out and out != inp and files[inp] != c["data"]:
        return "input file changed although another output name was given"
    if o.get("out_parses_to") != ["ok", o["exit"]]:
        return "output file does not parse to the simfile at block exit: %s vs %s" % (str(o.get("out_parses_to"))[:200], str(o["exit"])[:200])
    if bak and o.get("bak_parses_to") != ["ok", o["entry"]]:
        return "backup file does not parse to the simfile at block entry"
    written = F.text_mode_decode(bytes.fromhex(files[out or inp]), encs[first], c["fs"])
    docw = doc_loaded(c, written) if written is not None else None
    if docw is not None and o.get("out_parses_to") != ["ok", docw]:
        return "the written file loads as %s..., the loading rules on its text give %s..." % (str(o.get("out_parses_to"))[:300], str(docw)[:300])
    if o.get("idempotent") is not True:
        return "a no-op mutate on the written file changed its bytes (%s)" % o.get("idempotent")
    return None


def doc_loaded(c, text):
    """the object the documented rules build from this text in the format the file name says; None when the tokenizer rejects the text"""
    from msdparser import parse_msd
    from . import c03
    try:
        ps = [list(x.components) for x in parse_msd(string=text, ignore_stray_text=False)]
    except Exception:
        return None
    r = c03.doc_ssc(ps) if c["fmt"] == "ssc" else c03.doc_sm(ps)
    return r[1] if r[0] == "ok" else None


def nontrivial(c, o):
    return isinstance(o, dict) and o.get("exc") is None and o.get("exit") is not None


def describe(c):
    return "%s/%s/out%s/bak%s/%s" % (c["fmt"], c["fs"], {False: 0, True: 1}.get(c["output"], c["output"]), c["backup"], "custom" if c["try"] else "default")


def shrink(c):
    for i in range(len(c["ops"])):
        yield dict(c, ops=c["ops"][:i] + c["ops"][i + 1:])
    if c["try"]:
        yield dict(c, **{"try": None})
    if c["explicit"]:
        yield dict(c, explicit=None)
