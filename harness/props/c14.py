"""C14 - beats are exact fractions that snap to the 1/48 grid only from inexact input."""
import operator
from decimal import Decimal
from fractions import Fraction

from ..driver import SKIP
from ..lib import S

ID = "C14"
N_QUICK, N_THOROUGH = 2500, 120000
RULE = ("kinds: round (float/Decimal/str -> nearest tick), exact (int/Fraction/pair), ops (Beat arithmetic), str (tick -> 3 decimals -> tick), "
        "events (BeatValues print/parse with blank noise), parse (decimal-ish strings incl. malformed), timing (TimingData fields). "
        "distinct = distinct case JSON; non-trivial = result is not the integer 0 and not an error")
assumptions = ["float formatting of n/48 to 3 decimals is the correctly rounded decimal of the exact value (margin 1/6000 vs float error < 2^-40)",
               "decimal strings outside [ws][sign]digits[.digits][ws] (exponents, underscores, non-ASCII digits, fractions a/b) are Unmodelled and skipped"]
extra_trusted = ["Python fractions.Fraction / decimal.Decimal as the exact arithmetic the library delegates to"]


def fr(x):
    x = Fraction(x)
    return [x.numerator, x.denominator]


def corpus():
    out = []
    # every tick within +-2000 beats is swept in thorough (see gen); quick keeps the boundary cases
    for t in (0, 1, -1, 47, 48, 49, 95, 96, -47, -48, 24, -24, 7, 16, 191999, -191999):
        out.append({"k": "str", "t": t})
    for s in ("0.5", "1.0104", "1.0105", "0.0104166", "0.03125", "-0.0104", "1e3", "1/3", " 2.5 ", "+.5", "5.", ".", "", "abc", "1_0", "٣"):
        out.append({"k": "parse", "s": s})
    out.append({"k": "seq", "n": 1, "d": 10, "steps": ["dec", "frac"]})
    out.append({"k": "seq", "n": 1, "d": 32, "steps": ["frac", "float"]})
    out.append({"k": "events", "ev": [[0, [False, 60000, 3]], [192, [False, 120, 0]]], "noise": 0})
    out.append({"k": "events", "ev": [], "noise": 0})
    # a zero beat on the left or on the right of every operator, with each kind of second operand: the result is a Beat all the same
    for op in ("add", "sub", "mul", "truediv", "mod", "divmod", "radd", "rsub", "rmul"):
        for bk, b in (("int", [3, 1]), ("frac", [1, 3]), ("beat", [5, 48]), ("int", [-2, 1])):
            out.append({"k": "ops", "op": op, "a": [0, 1], "b": b, "bk": bk})
    for op in ("add", "sub", "mul", "radd", "rsub", "rmul", "rtruediv", "rmod", "rdivmod"):
        for bk in ("int", "frac", "beat"):
            out.append({"k": "ops", "op": op, "a": [7, 12], "b": [0, 1], "bk": bk})
    out += [{"k": "ops", "op": op, "a": [0, 54], "b": [597, 770], "bk": "frac"} for op in ("rdivmod", "rtruediv", "rmod", "mul")]   # zero divisor: ZeroDivisionError is the right answer
    out.append({"k": "events", "ev": [[576, [False, 90, 0]], [0, [False, 180, 0]], [576, [False, 1, 0]]], "noise": 0})      # written out of order, repeated beat
    # exactness of % and divmod with small operands of either sign (measures, halves, quarters)
    for op in ("mod", "divmod", "rmod"):
        for k in range(-10, 11):
            for bi in (-4, -3, -1, 2, 3):
                out.append({"k": "ops", "op": op, "a": [k, 4] if op != "rmod" or k else [1, 4], "b": [bi, 1], "bk": "int"})
    out.append({"k": "evstr", "s": "0.000=60.000,\n4.000=120"})
    out.append({"k": "evstr", "s": " \n "})
    out.append({"k": "evstr", "s": None})
    out.append({"k": "evstr", "s": "0=1=2"})
    out.append({"k": "evstr", "s": "0=1,"})
    for n, d in ((1, 96), (3, 96), (1, 32), (-1, 96), (-3, 96), (1, 3)):
        out.append({"k": "round", "via": "dec", "n": n, "d": d, "s": None})
    return out


def rand_dec(rng):
    places = rng.choice([0, 1, 2, 3, 3, 3, 6])
    c = rng.randrange(0, 10 ** rng.choice([1, 3, 5, 8]))
    return [rng.random() < 0.1, c, places]


def dec_str(d):
    neg, c, k = d
    s = str(c).rjust(k + 1, "0")
    if k:
        s = s[:-k] + "." + s[-k:]
    return ("-" if neg else "") + s


WS = [" ", "\n", "\r\n", "\t", "  "]


def gen(rng, i, tier):
    if tier == "thorough" and i < 96001:
        return {"k": "str", "t": i if i % 2 == 0 else -i}  # with i up to 96000: all ticks within +-2000 beats
    k = rng.choice(["round", "round", "exact", "ops", "ops", "str", "str", "events", "evstr", "parse", "timing", "seq", "seq"])
    if k == "seq":
        # the same number built in exact and inexact ways, in one history (a memoised constructor must not confuse them)
        if rng.random() < 0.5:
            j = rng.randrange(0, 9); n = rng.randrange(-2000, 2000); d = 2 ** j
            forms = ["float", "dec", "frac", "pair", "str", "op"]
        else:
            j = rng.randrange(0, 5); n = rng.randrange(-20000, 20000); d = 10 ** j
            forms = ["dec", "frac", "pair", "str", "op"]
        return {"k": "seq", "n": n, "d": d, "steps": [rng.choice(forms) for _ in range(rng.choice([2, 2, 3, 4]))]}
    if k == "round":
        via = rng.choice(["float", "dec", "str"])
        if via == "float":
            x = rng.choice([rng.uniform(-10, 10), rng.uniform(-1e4, 1e4), rng.randrange(-4800, 4800) / 48 + rng.choice([0, 1e-9, -1e-9, 1 / 96, 1 / 97])])
            n, d = x.as_integer_ratio()
            return {"k": "round", "via": "float", "n": n, "d": d, "s": x.hex(), "sub": rng.random() < 0.2}
        places = rng.choice([1, 2, 3, 4, 6, 9])
        c = rng.randrange(-10 ** (places + rng.choice([0, 1, 3])), 10 ** (places + rng.choice([0, 1, 3])))
        s = dec_str([c < 0, abs(c), places])
        return {"k": "round", "via": via, "n": c, "d": 10 ** places, "s": s, "sub": rng.random() < 0.2}
    if k == "exact":
        form = rng.choice(["int", "frac", "pair"])
        n = rng.randrange(-5000, 5000)
        d = 1 if form == "int" else rng.randrange(1, 1000)
        return {"k": "exact", "form": form, "n": n, "d": d}
    if k == "ops":
        op = rng.choice(["add", "sub", "mul", "truediv", "mod", "divmod", "neg", "pos", "abs", "radd", "rsub", "rmul", "rtruediv", "rmod", "rdivmod"])
        a = [rng.randrange(-2000, 2000), rng.randrange(1, 1000)]
        bk = rng.choice(["beat", "int", "frac"])
        b = [rng.randrange(-2000, 2000) or 1, 1 if bk == "int" else rng.randrange(1, 1000)]
        if rng.random() < 0.12:                          # a zero beat on either side (a difference that cancelled, the start of the song)
            if rng.random() < 0.6:
                a = [0, rng.choice([1, 48, 7])]
            else:
                b = [0, 1] if op not in ("truediv", "mod", "divmod") else b
        if rng.random() < 0.4:                           # small operands of either sign: measures, halves, thirds
            b = [rng.choice([-8, -4, -3, -2, -1, 1, 2, 3, 4, 8]), 1 if bk == "int" else rng.choice([1, 2, 3, 4])]
            a = [rng.randrange(-400, 400), rng.choice([1, 2, 3, 4, 48])]
        elif rng.random() < 0.3:                         # one operand on the tick grid, the other one off it
            a = [rng.randrange(-400, 400), rng.choice([1, 2, 3, 4, 48])]
            if bk != "int" and rng.random() < 0.3:
                a, b = [b[0], b[1]], a
        return {"k": "ops", "op": op, "a": a, "b": b, "bk": bk}
    if k == "str":
        t = rng.choice([rng.randrange(-96000, 96000), rng.randrange(-480000000, 480000000)])
        return {"k": "str", "t": t}
    if k == "events":
        n = rng.choice([0, 1, 1, 2, 3, 6, 12])
        beats = sorted(rng.sample(range(0, 48 * 400), n))
        if rng.random() < 0.3:
            rng.shuffle(beats)                        # the list is kept as written: order is not the library's business
        if n and rng.random() < 0.15:
            beats.append(rng.choice(beats))          # a repeated beat
        return {"k": "events", "ev": [[b, rand_dec(rng)] for b in beats], "noise": rng.randrange(1 << 30) if rng.random() < 0.6 else 0}
    if k == "evstr":
        # textual event lists, partly malformed
        rows = []
        for _ in range(rng.choice([0, 1, 2, 3])):
            b = "%.3f" % (rng.randrange(0, 9600) / 48)
            v = dec_str(rand_dec(rng))
            row = rng.choice([b + "=" + v] * 6 + [b, b + "=" + v + "=1", "=" + v, b + "=", b + " = " + v, "x=" + v])
            rows.append(rng.choice(["", " ", "\n"]) + row + rng.choice(["", " ", "\n"]))
        if not rows and rng.random() < 0.6:
            return {"k": "evstr", "s": rng.choice(["", " ", "\n", "\r\n", "  \n ", "\t"])}
        return {"k": "evstr", "s": ",".join(rows)}
    if k == "parse":
        alphabet = "0123456789..-+ e/_\t"
        s = "".join(rng.choice(alphabet) for _ in range(rng.randrange(0, 8)))
        if rng.random() < 0.5:
            s = rng.choice(["", " ", "-", "+"]) + str(rng.randrange(0, 5000)) + rng.choice(["", ".", ".5", ".0104", ".020833", ".010416666"]) + rng.choice(["", " ", "\n"])
        return {"k": "parse", "s": s}
    # timing
    n = rng.choice([1, 2, 3])
    def evs():
        beats = sorted(rng.sample(range(0, 48 * 100), rng.choice([0, 1, 2, 3])))
        return [[b, rand_dec(rng)] for b in beats]
    return {"k": "timing", "bpms": evs(), "stops": evs(), "delays": evs(), "warps": evs(), "offset": rng.choice([None, "", dec_str(rand_dec(rng)), dec_str(rand_dec(rng)), rng.choice([".5", "-.25", "+.125", "5e-3", "-1.25E-2", "125e-3", " 0.5\n", "1."])]),
            "noise": rng.randrange(1 << 30)}


def noisy(rows, noise):
    import random
    r = random.Random(noise)
    if not noise:
        return ",\n".join(rows)
    return ",".join(r.choice(WS + [""]) + row + r.choice(WS + [""]) for row in rows)


def ev_rows(ev):
    return ["%.3f=%s" % (float(Fraction(t, 48)), dec_str(d)) for t, d in ev]


def dec_obs(d):
    sign, digits, exp = d.as_tuple()
    if not isinstance(exp, int) or exp > 0:
        return ["sci", str(d)]
    return [bool(sign), int("".join(map(str, digits)) or "0"), -exp]


def bv_obs(bvs):
    return [[fr(b.beat), dec_obs(b.value)] for b in bvs]


def impl(c):
    from simfile.timing import Beat, BeatValues, BeatValue, TimingData
    k = c["k"]
    if k == "round":
        # "a float, a decimal or a decimal string": instances of subclasses are floats, decimals and strings too (the library's own SongTime is a float)
        sub = bool(c.get("sub"))
        if sub:
            try:
                from simfile.timing.engine import SongTime as FloatSub
            except Exception:
                class FloatSub(float):
                    pass

            class DecSub(Decimal):
                pass

            class StrSub(str):
                pass
        if c["via"] == "float":
            x = float.fromhex(c["s"])
            r = Beat(FloatSub(x) if sub else x)
        elif c["via"] == "dec":
            r = Beat((DecSub if sub else Decimal)(c["s"])) if c["s"] is not None else Beat(Fraction(c["n"], c["d"])).round_to_tick()
        else:
            r = Beat(StrSub(c["s"]) if sub else c["s"])
        r2 = Beat.from_str(c["s"]) if c["via"] == "str" else r
        return ["ok", type(r).__name__, fr(r), fr(r2)]
    if k == "seq":
        x = Fraction(c["n"], c["d"])
        out = []
        for st in c["steps"]:
            if st == "float":
                r = Beat(float(x))
            elif st == "dec":
                r = Beat(Decimal(c["n"]) / Decimal(c["d"]))
            elif st == "str":
                r = Beat(str(Decimal(c["n"]) / Decimal(c["d"])))
            elif st == "frac":
                r = Beat(x)
            elif st == "pair":
                r = Beat(c["n"], c["d"])
            else:
                r = Beat(c["n"], c["d"] * 2) * 2
            out.append([type(r).__name__, fr(r)])
        return ["ok", out]
    if k == "exact":
        if c["form"] == "int":
            r = Beat(c["n"])
        elif c["form"] == "frac":
            r = Beat(Fraction(c["n"], c["d"]))
        else:
            r = Beat(c["n"], c["d"])
        return ["ok", type(r).__name__, fr(r)]
    if k == "ops":
        a = Beat(*c["a"])
        b = {"beat": Beat(*c["b"]), "int": c["b"][0], "frac": Fraction(*c["b"])}[c["bk"]]
        op = c["op"]
        try:
            if op in ("neg", "pos", "abs"):
                r = getattr(operator, op)(a)
            elif op.startswith("r"):
                if c["bk"] == "beat":
                    b = Fraction(*c["b"])
                r = divmod(b, a) if op == "rdivmod" else getattr(operator, op[1:])(b, a)
            else:
                r = divmod(a, b) if op == "divmod" else getattr(operator, op)(a, b)
        except ZeroDivisionError:
            return ["zerodiv"]                  # legitimate exactly when the divisor is zero: the model says the same
        if isinstance(r, tuple):
            return ["ok", [type(r[1]).__name__, int(r[0]), fr(r[1])]]
        return ["ok", [type(r).__name__, fr(r)]]
    if k == "str":
        b = Beat(c["t"], 48)
        s = str(b)
        return ["ok", s, fr(Beat.from_str(s))]
    if k == "events":
        bvs = BeatValues([BeatValue(Beat(t, 48), Decimal(dec_str(d))) for t, d in c["ev"]])
        s = str(bvs)
        back = BeatValues.from_str(noisy(ev_rows(c["ev"]), c["noise"]))
        back0 = BeatValues.from_str(s)
        return ["ok", s, bv_obs(back0), bv_obs(back)]
    if k == "evstr":
        try:
            return ["ok", bv_obs(BeatValues.from_str(c["s"]))]
        except (ValueError, ArithmeticError) as e:
            return ["err"]
    if k == "parse":
        try:
            return ["ok", fr(Beat.from_str(c["s"]))]
        except (ValueError, ZeroDivisionError):
            return ["err"]
    if k == "timing":
        from simfile.sm import SMSimfile
        sf = SMSimfile.blank()
        sf.bpms = noisy(ev_rows(c["bpms"]), c["noise"])
        sf.stops = noisy(ev_rows(c["stops"]), c["noise"] + 1)
        sf["DELAYS"] = noisy(ev_rows(c["delays"]), c["noise"] + 2)
        sf["WARPS"] = noisy(ev_rows(c["warps"]), c["noise"] + 3)
        if c["offset"] is None:
            del sf["OFFSET"]
        else:
            sf.offset = c["offset"]
        td = TimingData(sf)
        return ["ok", bv_obs(td.bpms), bv_obs(td.stops), bv_obs(td.delays), bv_obs(td.warps), dec_obs(td.offset)]


def requests(c):
    k = c["k"]
    if k == "round":
        r = [[140, c["n"], c["d"]]]
        if c["via"] == "str":
            r.append([141, c["s"]])
        return r
    if k == "seq":
        return [[140, c["n"], c["d"]]]
    if k == "str":
        return [[142, c["t"]]]
    if k == "events":
        return [[144, c["ev"]], [143, [noisy(ev_rows(c["ev"]), c["noise"])]]]
    if k == "evstr":
        return [[143, [] if c["s"] is None else [c["s"]]]]
    if k == "parse":
        return [[141, c["s"]]]
    if k == "timing":
        r = [[143, [noisy(ev_rows(c[f]), c["noise"] + j)]] for j, f in enumerate(("bpms", "stops", "delays", "warps"))]
        r.append([145, c["offset"] or "0"])
        return r
    return []


def ticks(t):
    return fr(Fraction(t, 48))


def un_rd(a):
    """(0 (0 x)) Got / (0 (1)) Unmodelled / (0 (2)) ErrValue"""
    assert a[0] == 0
    a = a[1]
    return ("got", a[1]) if a[0] == 0 else ("unmodelled", None) if a[0] == 1 else ("err", None)


def evs_obs(l):
    return [[ticks(t), [bool(d[0]), d[1], d[2]]] for t, d in l]


def model(c, ans):
    k = c["k"]
    if k == "round":
        t = ans[0][1]
        r2 = ticks(t)
        if c["via"] == "str":
            st, val = un_rd(ans[1])
            if st != "got":
                return SKIP
            r2 = ticks(val)
        return ["ok", "Beat", ticks(t), r2]
    if k == "seq":
        snapped = ticks(ans[0][1])
        return ["ok", [["Beat", snapped if st in ("float", "dec", "str") else fr(Fraction(c["n"], c["d"]))] for st in c["steps"]]]
    if k == "exact":
        return ["ok", "Beat", fr(Fraction(c["n"], c["d"]))]
    if k == "ops":
        a = Fraction(*c["a"]); b = Fraction(*c["b"]); op = c["op"]
        divisor = a if op in ("rtruediv", "rmod", "rdivmod") else b if op in ("truediv", "mod", "divmod") else None
        if divisor == 0:
            return ["zerodiv"]
        if op in ("neg", "pos", "abs"):
            r = getattr(operator, op)(a)
        elif op.startswith("r"):
            r = divmod(b, a) if op == "rdivmod" else getattr(operator, op[1:])(b, a)
        else:
            r = divmod(a, b) if op == "divmod" else getattr(operator, op)(a, b)
        if isinstance(r, tuple):
            return ["ok", ["Beat", int(r[0]), fr(r[1])]]
        return ["ok", ["Beat", fr(r)]]
    if k == "str":
        return ["ok", S(ans[0][1]), ticks(c["t"])]   # second component: the theorem C14_str_roundtrip
    if k == "events":
        st, val = un_rd(ans[1])
        if st != "got":
            return {"unexpected": st}
        canon_ev = evs_obs(c["ev"])
        return ["ok", S(ans[0][1]), canon_ev, evs_obs(val)]
    if k == "evstr":
        st, val = un_rd(ans[0])
        if st == "unmodelled":
            return SKIP
        return ["ok", evs_obs(val)] if st == "got" else ["err"]
    if k == "parse":
        st, val = un_rd(ans[0])
        if st == "unmodelled":
            return SKIP
        return ["ok", ticks(val)] if st == "got" else ["err"]
    if k == "timing":
        outs = []
        for a in ans[:4]:
            st, val = un_rd(a)
            if st != "got":
                return SKIP
            outs.append(evs_obs(val))
        st, d = un_rd(ans[4])
        if st != "got":
            return SKIP
        return ["ok"] + outs + [[bool(d[0]), d[1], d[2]]]


def oracle(c, o):
    """the property restated directly on what the library returned"""
    k = c["k"]
    if isinstance(o, dict):
        if k == "evstr" and (c["s"] or "").strip() == "":
            return "a timing string of blanks and line breaks only holds no event, yet parsing it raised %s" % o.get("__harness_exc__")
        return "library raised %s" % o.get("__harness_exc__") if k not in ("parse", "evstr") else None
    if k == "evstr" and (c["s"] or "").strip() == "" and o != ["ok", []]:
        return "a timing string of blanks and line breaks only (%r) holds no event; parsing it gave %s" % (c["s"], o)
    if k == "evstr" and o[0] == "ok":
        # rows that are well-formed by the documented shape beat=value come back as exactly those events (independent reading of the text)
        rows = [r.strip() for r in (c["s"] or "").split(",")]
        try:
            from decimal import Decimal
            want = [[fr(Fraction(round(Fraction(Decimal(r.split("=")[0].strip())) * 48), 48)), dec_obs(Decimal(r.split("=")[1].strip()))] for r in rows if r] if all(len(r.split("=")) == 2 for r in rows if r) else None
        except Exception:
            want = None
        if want is not None and [x for x in rows if x] == rows and o[1] != want:
            return "BeatValues.from_str(%r) = %s, its rows spell %s" % (c["s"], o[1], want)
    if k == "round":
        x = Fraction(c["n"], c["d"])
        for r in (o[2], o[3]):
            r = Fraction(*r)
            if (r * 48).denominator != 1:
                return "result %s is not a multiple of 1/48" % r
            if abs(r - x) > Fraction(1, 96):
                return "result %s is more than 1/96 from the input %s" % (r, x)
        if o[1] != "Beat":
            return "result type is %s" % o[1]
    if k == "seq":
        x = Fraction(c["n"], c["d"])
        for st, (ty, r) in zip(c["steps"], o[1]):
            r = Fraction(*r)
            if st in ("frac", "pair", "op") and r != x:
                return "exact construction %s of %s gave %s" % (st, x, r)
            if st in ("float", "dec", "str") and ((r * 48).denominator != 1 or abs(r - x) > Fraction(1, 96)):
                return "inexact construction %s of %s gave %s" % (st, x, r)
    if k == "exact":
        if Fraction(*o[2]) != Fraction(c["n"], c["d"]) or o[1] != "Beat":
            return "Beat built from exact input is %s %s" % (o[1], o[2])
    if k == "ops":
        m = model(c, [])
        if o != m:
            return "operator %s gave %s, exact arithmetic gives %s" % (c["op"], o, m)
    if k == "str":
        if Fraction(*o[2]) != Fraction(c["t"], 48):
            return "tick %d prints as %r and reads back as %s" % (c["t"], o[1], o[2])
    if k in ("events",):
        want = evs_obs(c["ev"])
        if o[2] != want or o[3] != want:
            return "event list does not survive print/parse"
    if k == "timing":
        for f, got in zip(("bpms", "stops", "delays", "warps"), o[1:5]):
            if got != evs_obs(c[f]):
                return "TimingData.%s differs from the events written into the simfile" % f
        # the OFFSET string reaches the engine as the exact decimal it spells
        from decimal import Decimal
        got = o[5]
        gotv = Fraction(Decimal(got[1])) if got[0] == "sci" else Fraction(-got[1] if got[0] else got[1], 10 ** got[2])
        try:
            wantv = Fraction(Decimal((c["offset"] or "0").strip()))
        except Exception:
            wantv = None
        if wantv is not None and gotv != wantv:
            return "TimingData.offset is %s, the OFFSET string %r spells %s" % (gotv, c["offset"], wantv)
    return None


def nontrivial(c, o):
    return isinstance(o, list) and o[0] == "ok" and c.get("t", 1) != 0


def describe(c):
    return c["k"] + ("/" + c.get("via", c.get("op", c.get("form", ""))) if c["k"] in ("round", "ops", "exact") else "")


def shrink(c):
    if c["k"] == "events" and c["ev"]:
        for i in range(len(c["ev"])):
            yield dict(c, ev=c["ev"][:i] + c["ev"][i + 1:])
        if c["noise"]:
            yield dict(c, noise=0)
