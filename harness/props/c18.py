"""C18 - attribute and key views of a simfile or chart never disagree."""
import itertools
from collections import OrderedDict

from ..driver import SKIP
from ..lib import S

ID = "C18"
RULE = ("operation histories over {attr get/set/del, key get/set/del on standard/alias/unrelated key, contains, iterate} on SM simfile, SSC simfile, "
        "SSC chart, SM chart; exhaustive to length 2 (quick) / 3 (thorough) for every aliased property from 3 start states, then random histories of "
        "length 1..25 over all known properties; non-trivial = history contains a mutation and a read")
assumptions = ["attribute x is documented to live under key X.upper(); aliases FREEZES (SM stops), ANIMATIONS (bgchanges), NOTES2 (SSC chart notes)"]
extra_trusted = ["Python descriptor / OrderedDict plumbing is exercised only through the correspondence"]

ALIASES = {("sm", "stops"): "FREEZES", ("sm", "bgchanges"): "ANIMATIONS", ("ssc", "bgchanges"): "ANIMATIONS", ("sscchart", "notes"): "NOTES2"}
SIX = ["STEPSTYPE", "DESCRIPTION", "DIFFICULTY", "METER", "RADARVALUES", "NOTES"]


def classes():
    from simfile.sm import SMSimfile, SMChart
    from simfile.ssc import SSCSimfile, SSCChart
    return {"sm": SMSimfile, "ssc": SSCSimfile, "sscchart": SSCChart, "smchart": SMChart}


_attrs = {}


def attrs(kind):
    if kind not in _attrs:
        cls = classes()[kind]
        names = []
        for k in cls.__mro__:
            for n, v in vars(k).items():
                if isinstance(v, property) and v.fset is not None and n not in names and n != "charts":
                    names.append(n)
        _attrs[kind] = sorted(names)
    return _attrs[kind]


def prop(kind, attr):
    return [attr.upper(), ALIASES.get((kind, attr))]


def start_state(kind, start):
    cls = classes()[kind]
    if kind == "smchart" or start == "blank":
        return cls.blank()
    if start == "empty":
        return cls()
    o = cls()
    # alias-only start state
    for (k, a), al in ALIASES.items():
        if k == kind:
            o[al] = "aliased"
    o["ZZZ"] = "z"
    return o


VALUES = ["", "v", "w\n:;", None, "gfx\\banner.png", "a\\"]
_enum = None


def small_ops(kind, attr):
    std, alias = prop(kind, attr)
    ks = [std] + ([alias] if alias else []) + ["OTHER"]
    ops = [["ag", attr], ["as", attr, ""], ["as", attr, "v"], ["ad", attr], ["it"]]
    for k in ks:
        ops += [["kg", k], ["ks", k, ""], ["ks", k, "u"], ["kd", k], ["in", k]]
    return ops


def enumeration(depth):
    out = []
    targets = [("sm", "stops"), ("sm", "bgchanges"), ("ssc", "bgchanges"), ("sscchart", "notes"), ("ssc", "title"), ("smchart", "meter"), ("smchart", "notes")]
    for kind, attr in targets:
        ops = small_ops(kind, attr)
        if kind == "smchart":
            ops += [["ks", "meter", "x"], ["ks", "EXTRA", "x"], ["kg", "meter"], ["pop", "METER"], ["popitem"], ["update"]]
        for start in (["blank"] if kind == "smchart" else ["blank", "empty", "alias"]):
            for d in range(1, depth + 1):
                for h in itertools.product(ops, repeat=d):
                    out.append({"kind": kind, "start": start, "ops": [list(o) for o in h]})
    return out


def corpus():
    return [
        {"kind": "smchart", "start": "blank", "ops": [["ks", "stepstype", "x"], ["it"]]},   # F10 regression
        {"kind": "sm", "start": "empty", "ops": [["ks", "STOPS", ""], ["ks", "FREEZES", "4=1"], ["ag", "stops"], ["as", "stops", "x"], ["ad", "stops"], ["it"]]},
        {"kind": "smchart", "start": "blank", "ops": [["ks", "DESCRIPTION", ""], ["kg", "DESCRIPTION"], ["as", "meter", ""], ["kg", "METER"]]},
    ]


def gen(rng, i, tier):
    global _enum
    if _enum is None or _enum[0] != tier:
        _enum = (tier, enumeration(3 if tier == "thorough" else 2))
    if i < len(_enum[1]):
        return _enum[1][i]
    kind = rng.choice(["sm", "ssc", "sscchart", "smchart"])
    al = attrs(kind)
    ops = []
    for _ in range(rng.randrange(1, 26)):
        a = rng.choice(al)
        std, alias = prop(kind, a)
        k = rng.choice([std, std, alias or std, "OTHER", a, "X" + std])
        if kind != "smchart" and rng.random() < 0.2:
            # spellings that are aliases on ANOTHER class are ordinary keys here (FREEZES on an SSC simfile, NOTES2 on a simfile, ...)
            foreign = sorted({al_ for (kk, aa), al_ in ALIASES.items()} - ({alias} if alias else set()))
            a2 = [aa for (kk, aa), al_ in ALIASES.items() if aa in al]
            if foreign:
                k = rng.choice(foreign)
                if a2 and rng.random() < 0.7:
                    a = next((aa for (kk, aa), al_ in ALIASES.items() if al_ == k and aa in al), a)
        v = rng.choice(VALUES[:3] if kind == "smchart" else VALUES)
        ops.append(rng.choice([["ag", a], ["as", a, v], ["ad", a], ["kg", k], ["ks", k, v], ["kd", k], ["in", k], ["it"]]))
    return {"kind": kind, "start": "blank" if kind == "smchart" else rng.choice(["blank", "empty", "alias"]), "ops": ops, "ser_between": rng.random() < 0.35}


def quick_n():
    return len(enumeration(2)) + 1500


N_QUICK = quick_n()
N_THOROUGH = len(enumeration(3)) + 20000


def apply_impl(o, op):
    t = op[0]
    try:
        if t == "ag":
            return ["val", getattr(o, op[1])]
        if t == "as":
            setattr(o, op[1], op[2]); return ["unit"]
        if t == "ad":
            delattr(o, op[1]); return ["unit"]
        if t == "kg":
            return ["val", o[op[1]]]
        if t == "ks":
            o[op[1]] = op[2]; return ["unit"]
        if t == "kd":
            del o[op[1]]; return ["unit"]
        if t == "in":
            return ["bool", op[1] in o]
        if t == "it":
            return ["keys", list(iter(o))]
        if t == "pop":
            o.pop(op[1]); return ["unit"]
        if t == "popitem":
            o.popitem(); return ["unit"]
        if t == "update":
            o.update({"METER": "9"}); return ["unit"]
    except KeyError:
        return ["KeyError"]
    except NotImplementedError:
        return ["NotImplementedError"]


def impl(c):
    o = start_state(c["kind"], c["start"])
    cls = type(o)
    rs = []
    for op in c["ops"]:
        rs.append(apply_impl(o, op))
        if c.get("ser_between"):
            try:                      # serializing in the middle of a history must leave the mapping as it was
                str(o)
            except Exception:
                pass
    items = [[k, v] for k, v in OrderedDict.items(o)]
    # equality and serialisation see exactly the mapping's content
    fresh = cls()
    for k, v in items:
        OrderedDict.__setitem__(fresh, k, v)
    if c["kind"] in ("sm", "ssc"):
        fresh.charts = []
        try:
            o.charts
        except AttributeError:       # SMSimfile() built without text has no chart list yet
            o.charts = []
    same = True
    ser_same = True
    if c["kind"] != "sscchart" or any(k in ("NOTES", "NOTES2") for k, _ in items):
        try:
            ser_same = str(o) == str(fresh)
        except Exception as e:
            ser_same = "raised " + type(e).__name__
    same = (o == fresh)
    # ... and its order: the same pairs inserted in another order are a different simfile
    if c["kind"] in ("sm", "ssc") and len(items) >= 2:
        other = cls()
        for k, v in reversed(items):
            OrderedDict.__setitem__(other, k, v)
        other.charts = []
        if (o == other) or not (o != other) or (other == o):
            same = "equal to a simfile holding the same pairs in reverse order"
    # ... and the serialisation, parsed as MSD, lists exactly the mapping's items (an SSC chart: NOTEDATA first, its note data last)
    ser_items = None
    if c["kind"] in ("sm", "ssc") or (c["kind"] == "sscchart" and any(k in ("NOTES", "NOTES2") for k, _ in items)):
        from msdparser import parse_msd
        try:
            ser_items = [[x.key, None if len(x.components) == 1 else ":".join(x.components[1:])] for x in parse_msd(string=str(o))]
        except Exception as e:
            ser_items = "raised " + type(e).__name__
    ser_fields = None
    if c["kind"] == "smchart":
        from msdparser import parse_msd
        ps = list(parse_msd(string=str(o)))
        ser_fields = [x.strip() for x in ps[0].components[1:7]]
    bare_ok = True
    if c["kind"] == "smchart":
        # a chart built empty and filled field by field in another order (by key or by attribute): each value is read back under its own
        # field, and the serialisation lists them in the documented order
        import random as _r
        rr = _r.Random(len(str(c)) * 31 + len(items))
        order = list(SIX); rr.shuffle(order)
        bare = classes()["smchart"]()
        vals = {k: "%s-%d" % (k.lower(), i) for i, k in enumerate(SIX)}
        for k in order:
            if rr.random() < 0.5:
                bare[k] = vals[k]
            else:
                setattr(bare, k.lower(), vals[k])
        from msdparser import parse_msd
        got = [x.strip() for x in list(parse_msd(string=str(bare)))[0].components[1:7]]
        bare_ok = got == [vals[k] for k in SIX] and all(bare[k] == vals[k] and getattr(bare, k.lower()) == vals[k] for k in SIX)
        if not bare_ok:
            bare_ok = ["assigned in order %s" % order, "serialised fields %s" % got]
    # equality sees exactly the mapping's content: a copy that differs in one value by a trailing blank (or a line break in front) is not equal
    ws_ok = True
    import copy as _copy
    for k, v in list(o.items()):
        if isinstance(v, str):
            for v2 in (v + " ", "\n" + v):
                o2 = _copy.deepcopy(o)
                try:
                    o2[k] = v2
                except Exception:
                    continue
                if (o == o2) or not (o != o2):
                    ws_ok = ["key %s: %r vs %r" % (k, v, v2), "== gives %s, != gives %s" % (o == o2, o != o2)]
            break
    return {"results": rs, "items": items, "eq_fresh": same, "ser_fresh": ser_same, "ser_fields": ser_fields, "ser_items": ser_items, "bare_ok": bare_ok, "ws_ok": ws_ok}


def enc_op(kind, op):
    t = op[0]
    if t == "ag":
        return [0, prop(kind, op[1])]
    if t == "as":
        return [1, prop(kind, op[1]), [] if op[2] is None else [op[2]]]
    if t == "ad":
        return [2, prop(kind, op[1])]
    if t == "kg":
        return [3, op[1]]
    if t == "ks":
        return [4, op[1], [] if op[2] is None else [op[2]]]
    if t in ("kd", "pop"):
        return [5, op[1]]
    if t == "in":
        return [6, op[1]]
    if t == "it":
        return [7]
    if t in ("popitem", "update"):
        return [5, "METER"]          # refused the same way as a deletion


def enc_prop(p):
    return [p[0], [] if p[1] is None else [p[1]]]


def requests(c):
    o = start_state(c["kind"], c["start"])
    m = [[k, [] if v is None else [v]] for k, v in OrderedDict.items(o)]
    ops = []
    for op in c["ops"]:
        e = enc_op(c["kind"], op)
        if e[0] in (0, 1, 2):
            e[1] = enc_prop(e[1])
        ops.append(e)
    return [[181 if c["kind"] == "smchart" else 180, m, ops]]


def dval(v):
    return None if v == [] else S(v[0])


def model(c, ans):
    a = ans[0]
    assert a[0] == 0, a
    mf, rs = a[1]
    out = []
    for r in rs:
        t = r[0]
        out.append({0: lambda: ["val", dval(r[1])], 1: lambda: ["unit"], 2: lambda: ["KeyError"], 3: lambda: ["NotImplementedError"],
                    4: lambda: ["bool", bool(r[1])], 5: lambda: ["keys", [S(k) for k in r[1]]]}[t]())
    items = [[S(k), dval(v)] for k, v in mf]
    six = [dict((k, v) for k, v in items).get(k) for k in SIX] if c["kind"] == "smchart" else None
    return {"results": out, "items": items, "eq_fresh": True, "ser_fresh": True,
            "ser_fields": [x.strip() for x in six] if six else None, "ser_items": expected_ser_items(c["kind"], items), "bare_ok": True, "ws_ok": True}


def expected_ser_items(kind, items):
    if kind in ("sm", "ssc"):
        return [list(it) for it in items]
    if kind == "sscchart":
        keys = [k for k, _ in items]
        if "NOTES" not in keys and "NOTES2" not in keys:
            return None
        nk = "NOTES" if "NOTES" in keys else "NOTES2"
        return [["NOTEDATA", ""]] + [list(it) for it in items if it[0] != nk] + [list(it) for it in items if it[0] == nk]
    return None


def oracle(c, o):
    """reference dictionary semantics, independent of the Coq model"""
    if "__harness_exc__" in o:
        return "library raised %s (%s)" % (o["__harness_exc__"], o.get("msg"))
    start = start_state(c["kind"], c["start"])
    d = OrderedDict(OrderedDict.items(start))
    kind = c["kind"]
    exp = []
    for op in c["ops"]:
        t = op[0]
        if t in ("ag", "as", "ad"):
            std, alias = prop(kind, op[1])
            key = alias if (alias and alias in d and std not in d) else std
        if kind == "smchart":
            if t in ("ad", "kd", "pop", "popitem", "update"):
                exp.append(["NotImplementedError"]); continue
            if t == "kg":
                exp.append(["val", d.get(op[1])] if op[1] in SIX else ["KeyError"]); continue
            if t == "ks":
                if op[1] in SIX:
                    d[op[1]] = op[2]; exp.append(["unit"])
                else:
                    exp.append(["KeyError"])
                continue
        if t == "ag":
            exp.append(["val", d.get(key)])
        elif t == "as":
            d[key] = op[2]; exp.append(["unit"])
        elif t == "ad":
            if key in d:
                del d[key]; exp.append(["unit"])
            else:
                exp.append(["KeyError"])
        elif t == "kg":
            exp.append(["val", d[op[1]]] if op[1] in d else ["KeyError"])
        elif t == "ks":
            d[op[1]] = op[2]; exp.append(["unit"])
        elif t == "kd":
            if op[1] in d:
                del d[op[1]]; exp.append(["unit"])
            else:
                exp.append(["KeyError"])
        elif t == "in":
            exp.append(["bool", op[1] in d])
        elif t == "it":
            exp.append(["keys", list(d)])
    for i, (e, g) in enumerate(zip(exp, o["results"])):
        if e != g:
            return "operation %d %s: library gave %s, the two views require %s" % (i, c["ops"][i], g, e)
    if o["items"] != [[k, v] for k, v in d.items()]:
        return "final mapping %s differs from %s" % (o["items"], list(d.items()))
    if o["eq_fresh"] is not True or o["ser_fresh"] is not True:
        return "equality/serialisation do not see exactly the mapping's content (eq=%s ser=%s)" % (o["eq_fresh"], o["ser_fresh"])
    want = expected_ser_items(kind, [[k, v] for k, v in d.items()])
    if o.get("ser_items") != want:
        return "the serialisation lists %s, the mapping holds %s" % (o.get("ser_items"), want)
    if o.get("ws_ok") is not True:
        return "two objects whose mappings differ only by white space in one value compare equal: %s" % (o.get("ws_ok"),)
    if o.get("bare_ok") is not True:
        return "an SM chart built empty and filled in another field order: %s" % (o.get("bare_ok"),)
    if kind == "smchart" and o["ser_fields"] != [(d[k] or "").strip() for k in SIX]:
        return "serialised chart fields %s are not the six fields in documented order" % (o["ser_fields"],)
    return None


def nontrivial(c, o):
    ts = {op[0] for op in c["ops"]}
    return bool(ts & {"as", "ks", "ad", "kd"}) and bool(ts & {"ag", "kg", "it", "in"})


def describe(c):
    return "%s/%s/len%d" % (c["kind"], c["start"], min(len(c["ops"]), 5) if len(c["ops"]) < 5 else 5 * (len(c["ops"]) // 5))


def shrink(c):
    for i in range(len(c["ops"])):
        yield dict(c, ops=c["ops"][:i] + c["ops"][i + 1:])
