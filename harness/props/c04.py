"""C04 - load, save, load loses nothing; a second save changes nothing."""
from ..driver import SKIP
from ..lib import S
from .. import gen_simfile as G
from . import c01, c02, c03

ID = "C04"
N_QUICK, N_THOROUGH = 1500, 80000
RULE = ("texts generated as for C03 (grammar, soup, corpus mutations/truncations/splices) x strict x {SM, SSC}: load, serialise, reload strictly, "
        "serialise again; compared with the model's load/ser pipeline; oracle on texts whose loaded values lie outside msdparser's escaping gaps and "
        "whose SSC charts all contain note data; non-trivial = loaded simfile has >= 2 properties or a chart")
assumptions = c03.assumptions[:1]
extra_trusted = c01.extra_trusted


def corpus():
    out = []
    for i in range(len(G.corpus_files())):
        for ssc in (False, True):
            out.append({"t": ["corpus", i, 0], "strict": True, "ssc": ssc})
    for t in ("", " \n", "// only a comment\n", "#TITLE;", "#ATTACKS;", "#DISPLAYBPM;", "#VERSION:0.83;#DISPLAYBPM;#NOTEDATA:;#X;#NOTES;", "#NOTEDATA:;#NOTES2:1;#NOTES:2;",
              "#NOTEDATA:;#NOTES:2;#NOTES2:1;", "#TITLE:a\\:b;#NOTES:a:b:c:d:e:\n0000\n:x:y;",
              "#CREDIT\\:EDIT:someone;#TITLE:t;", "#PATH\\\\OLD:v;#TITLE:t;", "#VERSION:0.83;#NOTEDATA:;#CREDIT\\:EDIT:someone;#NOTES:0000;",        # property NAMES with escaped metacharacters
              "#VERSION:0.83;#TITLE:t;#NOTEDATA:;#;#STEPSTYPE:x;#NOTES:0000;", "#VERSION:0.83;#NOTEDATA:;#:;#NOTES:0000;", "#TITLE:t;#;#ARTIST:a;", "#VERSION:0.83;#NOTEDATA:;#NOTES:0000;\n#"):   # nameless properties
        for ssc in (False, True):
            out.append({"t": ["lit", t], "strict": True, "ssc": ssc})
    return out


def gen(rng, i, tier):
    c = c03.gen(rng, i, tier)
    ssc = rng.random() < 0.5
    if c["t"][0] == "lit" and rng.random() < 0.5:
        c["t"] = ["lit", G.rand_msd_text(rng, ssc)]
    return {"t": c["t"], "strict": c["strict"], "ssc": ssc}


text_of = c03.text_of


def impl(c):
    from simfile.sm import SMSimfile
    from simfile.ssc import SSCSimfile
    cls = SSCSimfile if c["ssc"] else SMSimfile
    t = text_of(c)
    try:
        sf = cls(string=t, strict=c["strict"])
    except Exception as e:
        return {"load": ["err", G.EXC.get(type(e).__name__, type(e).__name__)]}
    o = {"load": ["ok", G.sf_obs(sf)]}
    o["out"] = G.guarded(lambda: str(sf))
    if o["out"][0] == "ok":
        o["reload"] = G.guarded(lambda: G.sf_obs(cls(string=o["out"][1], strict=True)))
        o["out2"] = G.guarded(lambda: str(cls(string=o["out"][1], strict=True)))
        # the same output saved to a file and loaded back by name: the loader picks the encoding itself; an earlier open() that named
        # an encoding explicitly is part of the history
        if "\r" not in o["out"][1]:
            import os, tempfile, simfile
            try:
                raw = o["out"][1].encode("utf-8")
            except UnicodeEncodeError:
                raw = None
            if raw is not None:
                d = tempfile.mkdtemp(prefix="verif_c04_")
                p = os.path.join(d, "saved." + ("ssc" if c["ssc"] else "sm"))
                try:
                    with open(p, "wb") as f:
                        f.write(raw)
                    o["reload_file"] = G.guarded(lambda: G.sf_obs(simfile.open(p, strict=True)))
                    try:
                        simfile.open(p, encoding="cp1252", strict=False)
                    except Exception:
                        pass
                finally:
                    import shutil
                    shutil.rmtree(d, ignore_errors=True)
    return o


def requests(c):
    return [[26, c["ssc"], c["strict"], text_of(c)]]


def model(c, ans):
    a = ans[0][1]
    d = G.dec_ssc if c["ssc"] else G.dec_sm
    tag = a[0]
    if tag == 3:
        return {"load": G.dec_lres(a[1], d)}
    o = {"load": ["ok", d(a[1])]}
    if tag == 1:
        o["out"] = ["err", "key"]
        return o
    o["out"] = ["ok", S(a[2])]
    if tag == 2:
        o["reload"] = G.dec_lres(a[3], d)
        o["out2"] = ["err", o["reload"][1]]
        return o
    o["reload"] = ["ok", d(a[3])]
    o["out2"] = ["ok", S(a[4][0])] if a[4] else ["err", "key"]
    return o


def agree(io, mo):
    # the reload through a file is the oracle's business only (the model has no file system here)
    return {k: v for k, v in io.items() if k != "reload_file"} == mo if isinstance(io, dict) and isinstance(mo, dict) else io == mo


def oracle(c, o):
    if "__harness_exc__" in o:
        return "library raised %s (%s)" % (o["__harness_exc__"], o.get("msg"))
    if o["load"][0] != "ok":
        return None
    sf = o["load"][1]
    if c["ssc"]:
        if not all(any(k in ("NOTES", "NOTES2") for k, v in ch) for ch in sf[2]):
            return None                                   # outside the property: a chart without note data
        both = any(sum(k in ("NOTES", "NOTES2") for k, v in ch) == 2 for ch in sf[2])
        dom = c02.in_domain(sf) if not both else None
        want = c02.notes_last(sf)
    else:
        dom = c01.in_domain(sf)
        want = sf
        both = False
    if o["out"][0] != "ok":
        return "a loaded simfile could not be serialised: %s" % o["out"][1]
    if both:
        # both NOTES and NOTES2 present: nothing may be lost; order: NOTES last
        if o["reload"][0] != "ok":
            return "reload failed: %s" % o["reload"][1]
        for ch, ch2 in zip(sf[2], o["reload"][1][2]):
            if sorted(map(str, ch)) != sorted(map(str, ch2)):
                return "chart lost or altered a property over load/save: %s -> %s" % (str(ch)[:200], str(ch2)[:200])
        return None
    if dom is False:
        return None
    if o["reload"] != ["ok", want]:
        return "load-save-load changed the simfile: %s... -> %s..." % (str(want)[:300], str(o["reload"])[:300])
    if o["out2"] != o["out"]:
        return "a second save is not byte-for-byte the first"
    if "reload_file" in o and o["reload_file"] != o["reload"]:
        return "the saved text written to a file (utf-8) and opened by name loads as %s..., from the string it loads as %s..." % (str(o["reload_file"])[:250], str(o["reload"])[:250])
    return None


def nontrivial(c, o):
    return isinstance(o, dict) and o.get("load", [""])[0] == "ok" and (len(o["load"][1][1]) >= 2 or bool(o["load"][1][2]))


def describe(c):
    return c03.describe(c) + ("/ssc" if c["ssc"] else "/sm")


def shrink(c):
    for x in c03.shrink(dict(c, names=[])):
        yield {"t": x["t"], "strict": c["strict"], "ssc": c["ssc"]}


def known_probes():
    return c01.known_probes()
