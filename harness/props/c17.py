"""C17 - SSC to SM conversion applies the caller's policy to every SSC-only property."""
import re
from fractions import Fraction

from ..driver import SKIP
from ..lib import S
from .. import gen_simfile as G
from . import c16

ID = "C17"
N_QUICK, N_THOROUGH = 1500, 80000
RULE = ("SSC sources: simfile properties incl. each SSC-only property absent / empty / default / default with surrounding blanks / non-default; charts whose "
        "keys are the six SM fields plus documented SSC chart properties in the same value states; WARPS absent/empty/non-empty; x sampled behaviour "
        "mappings (total and partial; all 4^5 total mappings in thorough) x with/without templates (templates that themselves hold SSC-only keys included); corpus SSC files; sm_to_ssc outputs for the round "
        "trip; compares result or exception (class + offending key); non-trivial = at least one SSC-only property present")
assumptions = ["key-only (None) SSC-only properties are outside C17's enumerated value states (observation K5): the model answers Unmodelled, generator avoids them"]
extra_trusted = []

SF_INVALID = {1: ["VERSION"], 2: ["ORIGIN", "TIMESIGNATURES", "LABELS", "MUSICLENGTH", "LASTSECONDHINT"], 3: ["PREVIEWVID", "JACKET", "CDIMAGE", "DISCIMAGE", "PREVIEW"],
              4: ["COMBOS", "SPEEDS", "SCROLLS", "FAKES"], 5: ["WARPS"]}
CH_INVALID = {2: ["CHARTNAME", "CHARTSTYLE", "CREDIT", "DISPLAYBPM", "TIMESIGNATURES", "LABELS"], 4: ["TICKCOUNTS", "COMBOS", "SPEEDS", "SCROLLS", "FAKES", "ATTACKS"],
              5: ["OFFSET", "BPMS", "STOPS", "DELAYS", "WARPS"]}
DEFAULTS = {"TIMESIGNATURES": "0.000=4=4", "TICKCOUNTS": "0.000=4", "COMBOS": "0.000=1", "SPEEDS": "0.000=1.000=0.000=0", "SCROLLS": "0.000=1.000", "LABELS": "0.000=Song Start"}
DEFAULT_BEH = {1: 2, 2: 2, 3: 2, 4: 3, 5: 3}
SIX = ["STEPSTYPE", "DESCRIPTION", "DIFFICULTY", "METER", "RADARVALUES", "NOTES"]


def state_value(rng, key):
    d = DEFAULTS.get(key, "")
    st = rng.choice(["empty", "default", "default_ws", "nondefault"])
    if st == "empty":
        return ""
    if st == "default":
        return d
    if st == "default_ws":
        return " " + d + "\n"
    return rng.choice(["0.000=2", "x", "1.000=1.000", "0.83"])


def rand_ssc(rng):
    props = [["VERSION", rng.choice(["0.83", "0.83", "0.83", "0.7", "0.69", "0.5", "0", " 0.3\n", "1.0", "x"])], ["TITLE", G.rand_value(rng)], ["OFFSET", "0.000"], ["BPMS", "0.000=120.000"], ["STOPS", ""]]
    if rng.random() < 0.3:
        props = props[1:]
    for pt, keys in SF_INVALID.items():
        for key in keys:
            if key == "VERSION":
                continue
            if rng.random() < 0.25:
                if key == "WARPS":
                    props.append([key, rng.choice(["", "", "4.000=1.000"])])
                else:
                    props.append([key, state_value(rng, key)])
    for key in ("ARTIST", "ATTACKS", "BGCHANGES", "MYKEY"):
        if rng.random() < 0.3:
            props.append([key, None if rng.random() < 0.15 else G.rand_value(rng)])
    if rng.random() < 0.5:
        rng.shuffle(props)
    charts = []
    for _ in range(rng.choice([0, 1, 1, 2, 3])):
        pad = (lambda v: rng.choice([" ", "\n", ""]) + v + rng.choice([" ", " \n", "\t"])) if rng.random() < 0.25 else (lambda v: v)      # an SSC chart keeps blanks around a value
        ch = [[k, None if rng.random() < 0.06 else pad(G.stripped(rng))] for k in SIX[:5]] + [["NOTES", rng.choice(["0000\n0000", "1000", "\n0000\n0000\n"])]]      # None: a key-only field (#DESCRIPTION;)
        for pt, keys in CH_INVALID.items():
            for key in keys:
                if rng.random() < 0.18:
                    ch.append([key, state_value(rng, key)])
        if rng.random() < 0.5:
            rng.shuffle(ch)
        charts.append(ch)
    return props, charts


def rand_beh(rng):
    r = rng.random()
    if r < 0.3:
        return {}
    if r < 0.6:
        return {str(pt): rng.choice([1, 2, 3, 4]) for pt in range(1, 6)}
    return {str(pt): rng.choice([1, 2, 3, 4]) for pt in rng.sample(range(1, 6), rng.randrange(1, 4))}


_all_beh = None


def corpus():
    out = []
    n = len([1 for f, t in G.corpus_files() if f.lower().endswith(".ssc")])
    for i in range(n):
        out.append({"src": ["corpus", i], "beh": {}, "ts": None, "tc": None})
        out.append({"src": ["corpus", i], "beh": {"1": 1, "2": 2, "3": 2, "4": 2, "5": 2}, "ts": None, "tc": None})
    # round trip: sm_to_ssc output back to SM
    out.append({"src": ["roundtrip", [[["TITLE", "x"], ["OFFSET", "0.000"], ["BPMS", "0.000=120.000"], ["STOPS", ""], ["ATTACKS", "a:b"]], [["dance-single", "", "Easy", "3", "0,0", "0000\n0000", []]]]],
                "beh": {}, "ts": None, "tc": None})
    # seeded shape: default SPEEDS in an earlier chart, non-default in a later one
    ch1 = [[k, "a"] for k in SIX] + [["SPEEDS", " 0.000=1.000=0.000=0 "], ["DELAYS", ""]]
    ch2 = [[k, "a"] for k in SIX] + [["SPEEDS", "0.000=2.000=0.000=0"]]
    out.append({"src": ["lit", [[["VERSION", "0.83"], ["BPMS", "0=1"]], [ch1, ch2]]], "beh": {}, "ts": None, "tc": None})
    out.append({"src": ["lit", [[["VERSION", "0.83"], ["BPMS", "0=1"]], [ch2, ch1]]], "beh": {}, "ts": None, "tc": None})
    # templates that are not blank-derived: an empty simfile with two keys of its own (and a chart), the default and a lenient policy
    plain = [[k, "a"] for k in SIX]
    for beh in ({}, {"1": 2, "2": 2, "3": 2, "4": 2, "5": 2}):
        out.append({"src": ["lit", [[["VERSION", "0.83"], ["TITLE", "t"], ["BPMS", "0=1"], ["STOPS", ""]], [plain]]], "beh": beh,
                    "ts": {"props": "empty", "extra": [["CREDIT", "tmpl"], ["X", "y"]], "charts": 1, "extras": True}, "tc": {"radar": "1,2,3", "extras": True}})
    for beh in ({}, {"1": 1, "2": 1, "3": 1, "4": 1, "5": 1}, {"1": 3, "2": 3, "3": 3, "4": 3, "5": 3}):
        out.append({"src": ["lit", [[["VERSION", "0.83"], ["TITLE", "t"], ["BPMS", "0=1"], ["STOPS", ""], ["ORIGIN", "src"], ["COMBOS", "0.000=1"], ["LABELS", " 0.000=Song Start\n"], ["JACKET", "j.png"]], [plain]]], "beh": beh,
                    "ts": {"props": "blank", "extra": [["ORIGIN", "tmpl origin"], ["COMBOS", "0.000=1"], ["LABELS", "0.000=tmpl"], ["JACKET", "tmpl.png"]], "charts": 0}, "tc": None})
    return out


def gen(rng, i, tier):
    global _all_beh
    if tier == "thorough" and i < 1024:
        import itertools
        if _all_beh is None:
            _all_beh = [dict(zip("12345", m)) for m in itertools.product([1, 2, 3, 4], repeat=5)]
        beh = _all_beh[i]
    else:
        beh = rand_beh(rng)
    if rng.random() < 0.1:
        from . import c16 as C
        props, charts = C.rand_sm(rng)
        props = [kv for kv in props if not any(kv[0] in ks for ks in SF_INVALID.values())]     # the round-trip clause: no SSC-only key in the SM source
        if rng.random() < 0.35:                # the SM-only spellings travel through the SSC simfile as ordinary keys
            have = {k for k, _ in props}
            for kv in (["FREEZES", "4.000=1.000"], ["ANIMATIONS", "bg.avi"]):
                if kv[0] not in have and rng.random() < 0.7:
                    props.insert(rng.randrange(len(props) + 1), kv)
            if rng.random() < 0.5:
                props = [kv for kv in props if kv[0] != "STOPS"]
        return {"src": ["roundtrip", [props, charts]], "beh": {}, "ts": None, "tc": None}
    props, charts = rand_ssc(rng)
    ts = tc = None
    if rng.random() < 0.35:
        ts = {"props": rng.choice(["blank", "blank", "empty"]), "extra": [["CREDIT", "tmpl"], ["X", "y"]][: rng.randrange(0, 3)], "charts": rng.choice([0, 0, 1]), "extras": rng.random() < 0.5}
        if rng.random() < 0.4:
            # a template may itself hold keys the SM format does not define: they are the template's, whatever happens to the source's
            ts["extra"] = ts["extra"] + rng.sample([["ORIGIN", "tmpl origin"], ["LABELS", "0.000=tmpl"], ["COMBOS", "0.000=1"], ["WARPS", ""], ["JACKET", "tmpl.png"], ["VERSION", "0.5"]], rng.randrange(1, 4))
    if rng.random() < 0.3:
        tc = {"radar": rng.choice(["1,2,3", "0"]), "extras": rng.random() < 0.5}
    return {"src": ["lit", [props, charts]], "beh": beh, "ts": ts, "tc": tc, "subclass": rng.choice([0, 0, 0, 1, 2, 3, 4, 7])}


def build(c):
    from simfile.sm import SMSimfile, SMChart
    from simfile.ssc import SSCSimfile, SSCChart
    from simfile.convert import sm_to_ssc
    kind, data = c["src"]
    if kind == "corpus":
        files = [t for f, t in G.corpus_files() if f.lower().endswith(".ssc")]
        ssc = SSCSimfile(string=files[data % len(files)])
    elif kind == "roundtrip":
        sm = SMSimfile(string="")
        for kk, vv in data[0]:
            sm[kk] = vv
        for ch in data[1]:
            sm.charts.append(SMChart.from_msd(ch[:6]))
        ssc = sm_to_ssc(sm)
    else:
        ssc = SSCSimfile(string="")
        for kk, vv in data[0]:
            ssc[kk] = vv
        for ch in data[1]:
            x = SSCChart()
            for kk, vv in ch:
                x[kk] = vv
            ssc.charts.append(x)
    ts = tc = None
    if c["ts"]:
        ts = SMSimfile.blank() if c["ts"]["props"] == "blank" else SMSimfile(string="")
        for kk, vv in c["ts"]["extra"]:
            ts[kk] = vv
        for j in range(c["ts"]["charts"]):
            ch = SMChart.blank(); ch.description = "template chart %d" % j
            if c["ts"].get("extras"):
                ch.extradata = ["template extra %d" % j, "x:y"]          # SM charts may carry extra NOTES components
            ts.charts.append(ch)
    if c["tc"]:
        tc = SMChart.blank(); tc.radarvalues = c["tc"]["radar"]
        if c["tc"].get("extras"):
            tc.extradata = ["chart template extra"]
    if c.get("subclass"):
        # templates (and the source) that are instances of a caller's subclasses: an SM simfile is an SM simfile
        if ts is not None and c["subclass"] & 1:
            ts.__class__ = type("PackSimfile", (SMSimfile,), {})
        if tc is not None and c["subclass"] & 2:
            tc.__class__ = type("PackChart", (SMChart,), {})
        if c["subclass"] & 4:
            ssc.__class__ = type("MySSC", (SSCSimfile,), {})
    return ssc, ts, tc


def beh_map(c):
    from simfile.convert import PropertyType, InvalidPropertyBehavior
    return {PropertyType(int(k)): InvalidPropertyBehavior(v) for k, v in c["beh"].items()}


def impl(c):
    from simfile.convert import ssc_to_sm, InvalidPropertyException
    ssc, ts, tc = build(c)
    before = [c16.snapshot(ssc), c16.snapshot(ts), c16.snapshot(tc)]
    kw = {"invalid_property_behaviors": beh_map(c)}
    if ts is not None:
        kw["simfile_template"] = ts
    if tc is not None:
        kw["chart_template"] = tc
    try:
        out = ssc_to_sm(ssc, **kw)
        res = ["ok", c16.conv_obs(out)]
    except NotImplementedError:
        res = ["err", "notimpl"]
    except InvalidPropertyException as e:
        m = re.match(r"cannot convert '((?:[^'\\]|\\.)*)'", str(e))
        res = ["err", "invalid:" + (m.group(1) if m else "?")]
    except KeyError:
        res = ["err", "key"]
    o = {"res": res, "unmodified": [c16.snapshot(ssc), c16.snapshot(ts), c16.snapshot(tc)] == before}
    if res[0] == "ok":
        # templates respected down to the charts' extra components
        want = [list(getattr(x, "extradata", None) or []) for x in (ts.charts if ts is not None and len(ts) else [])]
        want += [list(getattr(tc, "extradata", None) or []) if tc is not None else [] for _ in ssc.charts]
        o["extras_ok"] = [list(getattr(x, "extradata", None) or []) for x in out.charts] == want
        # every view of the result agrees: subscripts, get, attributes and items of the simfile and of each chart
        views = True
        try:
            from collections import OrderedDict
            for obj in [out] + list(out.charts):
                for k, v in OrderedDict.items(obj):
                    if obj[k] != v or obj.get(k, "missing") != v or (k in obj) is not True or dict(obj)[k] != v:
                        views = ["key %s of %s" % (k, type(obj).__name__), "items say %r" % (v,)]
        except Exception as e:
            views = ["reading the result raised %s(%s)" % (type(e).__name__, e)]
        o["views_ok"] = views
        shared = any(x is y for x in out.charts for y in (ts.charts if ts is not None else [])) or any(x is tc for x in out.charts)
        out["TITLE"] = "mutated"
        for x in out.charts:
            x.description = "mutated"
        o["no_sharing"] = (not shared) and [c16.snapshot(ssc), c16.snapshot(ts), c16.snapshot(tc)] == before
    return o


def src_obs(c):
    ssc, ts, tc = build(c)
    sf = G.props_obs(ssc)
    charts = [c16.chart_props(x) for x in ssc.charts]
    tso = None if ts is None else [G.props_obs(ts), [c16.chart_props(x) for x in ts.charts]]
    tco = None if tc is None else c16.chart_props(tc)
    return sf, charts, tso, tco


def requests(c):
    sf, charts, tso, tco = src_obs(c)
    return [[161, G.enc_props(sf), [G.enc_props(x) for x in charts],
             [] if tso is None else [[G.enc_props(tso[0]), [G.enc_props(x) for x in tso[1]]]],
             [] if tco is None else [G.enc_props(tco)], [[int(k), v] for k, v in sorted(c["beh"].items())]]]


def model(c, ans):
    r = c16.un_cres(ans[0][1])
    if r == ["err", "unmodelled"]:
        return SKIP
    o = {"res": r, "unmodified": True}
    if r[0] == "ok":
        o["no_sharing"] = True
        o["extras_ok"] = True
        o["views_ok"] = True
    return o


def decide(inv, beh, key, v):
    for pt, keys in inv.items():
        if key in keys:
            b = beh.get(str(pt)) or DEFAULT_BEH[pt]
            if b == 1:
                return "copy"
            if b == 2:
                return "skip"
            if b == 3 and v is not None and v.strip() == DEFAULTS.get(key, ""):
                return "skip"
            return "error"
    return "copy"


def oracle(c, o):
    """the policy, restated on the source (independent of the Coq model)"""
    if "__harness_exc__" in o:
        return "library raised %s (%s) - neither a result nor a documented refusal" % (o["__harness_exc__"], o.get("msg"))
    sf, charts, tso, tco = src_obs(c)
    d = dict((k, v) for k, v in sf)
    if any(v is None for k, v in sf if any(k in ks for ks in SF_INVALID.values())):
        return None
    # outside the claimed domain: chart keys the SM chart cannot hold and that the table does not list (K4)
    for ch in charts:
        for k, v in ch:
            if k not in SIX and not any(k in ks for ks in CH_INVALID.values()):
                return None
            if v is None and any(k in ks for ks in CH_INVALID.values()):
                return None
            if k not in SIX and decide(CH_INVALID, c["beh"], k, v) == "copy":
                return None
    w = d.get("WARPS")
    if w and not w.strip():
        return None                                   # blank-only WARPS: not claimed either way
    if w:
        want = ["err", "notimpl"]
    else:
        want = None
        for k, v in sf:
            if decide(SF_INVALID, c["beh"], k, v) == "error":
                want = ["err", "invalid:" + k]
                break
        if want is None:
            for ch in charts:
                for k, v in ch:
                    if decide(CH_INVALID, c["beh"], k, v) == "error":
                        want = ["err", "invalid:" + k]
                        break
                if want:
                    break
    if want is not None:
        return None if o["res"] == want else "expected %s, got %s" % (want, str(o["res"])[:200])
    if o["res"][0] != "ok":
        return "conversion refused (%s) although the policy allows every property" % o["res"][1]
    props, out_charts = o["res"][1]
    od = dict((k, v) for k, v in props)
    from simfile.sm import SMSimfile
    tmpl = dict((k, v) for k, v in (tso[0] if (tso and tso[0]) else G.props_obs(SMSimfile.blank())))
    for k, v in sf:
        dec = decide(SF_INVALID, c["beh"], k, v)
        if dec == "copy" and od.get(k, "__missing__") != v:
            return "property %s should be copied (%r), result has %r" % (k, v, od.get(k, "__missing__"))
        if dec == "skip" and k in od and k not in tmpl:
            return "SSC-only property %s should be left out" % k
    # "templates respected": the result holds the template's properties in the template's order, then the copied source properties it lacked, and nothing else
    tmpl_keys = [k for k, v in (tso[0] if (tso and tso[0]) else G.props_obs(SMSimfile.blank()))]
    want_keys = tmpl_keys + [k for k, v in sf if k not in tmpl_keys and decide(SF_INVALID, c["beh"], k, v) == "copy"]
    if [k for k, v in props] != want_keys:
        return "the result's properties are %s, the template's followed by the copied source properties would be %s" % ([k for k, v in props][:14], want_keys[:14])
    ntmpl = len(tso[1]) if (tso and tso[0]) else 0
    if len(out_charts) != ntmpl + len(charts):
        return "%d charts, expected %d" % (len(out_charts), ntmpl + len(charts))
    for oc, sc in zip(out_charts[ntmpl:], charts):
        if [k for k, v in oc] != SIX:
            return "SM chart keys are %s" % [k for k, v in oc]
        for k, v in sc:
            if k in SIX and dict(oc)[k] != v:
                return "chart field %s: %r -> %r" % (k, v, dict(oc)[k])
    if c["src"][0] == "roundtrip":
        sp, sc = c["src"][1]
        for k, v in sp:
            if od.get(k) != v:
                return "round trip lost or changed %s: %r -> %r" % (k, v, od.get(k))
        for a, b in zip(sc, out_charts):
            if [x.strip() if i < 6 else x for i, x in enumerate(a[:6])] != [v for k, v in b]:
                return "round trip changed a chart"
    if o.get("res", [""])[0] == "ok" and o.get("views_ok") is not True:
        return "the result holds a property that not every view shows: %s" % (o.get("views_ok"),)
    if o.get("res", [""])[0] == "ok" and o.get("extras_ok") is not True:
        return "the converted charts do not carry the extra components of the templates they were copied from"
    if o.get("unmodified") is not True or o.get("no_sharing") is not True:
        return "inputs modified or shared (unmodified=%s no_sharing=%s)" % (o.get("unmodified"), o.get("no_sharing"))
    return None


def nontrivial(c, o):
    if c["src"][0] != "lit":
        return True
    return any(any(k in ks for ks in SF_INVALID.values()) for k, v in c["src"][1][0] if k != "VERSION") or \
        any(any(k in ks for ks in CH_INVALID.values()) for ch in c["src"][1][1] for k, v in ch)


def describe(c):
    return "%s/beh%d/%s" % (c["src"][0], len(c["beh"]), "tmpl" if (c["ts"] or c["tc"]) else "plain")


def shrink(c):
    if c["src"][0] != "lit":
        return
    props, charts = c["src"][1]
    for i in range(len(props)):
        yield dict(c, src=["lit", [props[:i] + props[i + 1:], charts]])
    for i in range(len(charts)):
        yield dict(c, src=["lit", [props, charts[:i] + charts[i + 1:]]])
        for j in range(len(charts[i])):
            if charts[i][j][0] not in SIX:
                yield dict(c, src=["lit", [props, charts[:i] + [charts[i][:j] + charts[i][j + 1:]] + charts[i + 1:]]])
    if c["beh"]:
        for k in list(c["beh"]):
            yield dict(c, beh={a: b for a, b in c["beh"].items() if a != k})


def known_probes():
    def k4():
        from simfile.ssc import SSCSimfile, SSCChart
        from simfile.convert import ssc_to_sm
        s = SSCSimfile.blank(); ch = SSCChart.blank(); ch["MUSIC"] = "x.ogg"; s.charts.append(ch)
        try:
            ssc_to_sm(s)
            return False
        except KeyError:
            return True
        except Exception:
            return False
    return [("K4", "SSC chart with a key the SM chart cannot hold and the table does not list (MUSIC, NOTES2, unknown; any chart key under COPY_ANYWAY) ends in a bare KeyError", k4)]
