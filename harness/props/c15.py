"""C15 - split timing: chart timing is used all-or-nothing under one rule."""
import itertools
from decimal import Decimal
from fractions import Fraction

from ..driver import SKIP
from ..lib import S
from .. import gen_simfile as G

ID = "C15"
RULE = ("configuration space: simfile kind {SM,SSC} x SSC version {absent, empty, 0.69, 0.7, 0.70, 0.83, 1.0} x chart {none, SM, SSC} x each of the eleven "
        "chart timing keys {absent, empty, non-empty} x OFFSET/DISPLAYBPM {absent, empty, value} on either side x ignore_specified; quick: every "
        "single-key and pairwise state of the eleven keys for every version/kind + random; thorough: a much larger random sample of the 3^11 space; "
        "a third of the random cases written out as text and loaded instead of built property by property; compares timing source, all TimingData fields and displaybpm; non-trivial = SSC simfile with an SSC chart")
assumptions = ["SSC version strings are plain decimals of <= 15 significant digits, for which float(v) >= 0.7 iff v >= 7/10"]
extra_trusted = []

TKEYS = ["BPMS", "STOPS", "DELAYS", "TIMESIGNATURES", "TICKCOUNTS", "COMBOS", "WARPS", "SPEEDS", "SCROLLS", "FAKES", "LABELS"]
VERSIONS = [None, "", "0.69", "0.7", "0.70", "0.83", "1.0"]
NONEMPTY = {"BPMS": "0.000=150.000,\n8.000=75.5", "STOPS": "4.000=0.500", "DELAYS": "2.000=0.250", "TIMESIGNATURES": "0.000=4=4", "TICKCOUNTS": "0.000=4",
            "COMBOS": "0.000=1", "WARPS": "6.000=1.000", "SPEEDS": "0.000=1.000=0.000=0", "SCROLLS": "0.000=1.000", "FAKES": "1.000=1.000", "LABELS": "0.000=x"}
_enum = None


def base_sf(version, kind):
    sf = [["TITLE", "t"], ["OFFSET", "0.125"], ["BPMS", "0.000=120.000,\n4.000=240.000,\n8.000=60"], ["STOPS", "1.000=0.100"], ["DISPLAYBPM", "100:200"]]
    if version is not None:
        sf.insert(0, ["VERSION", version])
    if kind == "SSC":
        sf += [["DELAYS", "3.000=0.300"], ["WARPS", "5.000=0.500"]]
    else:
        sf += [["DELAYS", "3.000=0.300"]]
    return sf


def enumeration():
    global _enum
    if _enum is None:
        out = []
        for kind in ("SM", "SSC"):
            for v in (VERSIONS if kind == "SSC" else [None, "0.69", "0.7", "0.83"]):
                for ck in ("none", "SM", "SSC"):
                    states = [dict()]
                    if ck == "SSC":
                        for k1 in TKEYS:
                            for s1 in ("", "x"):
                                states.append({k1: s1})
                        for k1, k2 in itertools.combinations(TKEYS, 2):
                            states.append({k1: "", k2: ""}); states.append({k1: "", k2: "x"})
                    for st in states:
                        ch = [[kk, (NONEMPTY[kk] if vv == "x" else "")] for kk, vv in st.items()]
                        for extra in ([], [["OFFSET", "-1.5"]], [["DISPLAYBPM", "90"]], [["OFFSET", ""], ["DISPLAYBPM", ""]]):
                            out.append({"kind": kind, "sf": base_sf(v, kind), "ck": ck, "chart": ch + extra, "ign": False})
        _enum = out[::3] + out[1::3][:400]
    return _enum


def corpus():
    out = []
    # seeded shapes: present-but-empty chart timing key; chart source without DISPLAYBPM while simfile has one
    out.append({"kind": "SSC", "sf": base_sf("0.83", "SSC"), "ck": "SSC", "chart": [["BPMS", ""], ["OFFSET", "9"], ["DISPLAYBPM", "1"]], "ign": False})
    out.append({"kind": "SSC", "sf": base_sf("0.83", "SSC"), "ck": "SSC", "chart": [["BPMS", "0.000=50.000,\n1.000=70"]], "ign": False})
    out.append({"kind": "SSC", "sf": base_sf("0.83", "SSC"), "ck": "SSC", "chart": [["BPMS", "0.000=50.000"], ["DISPLAYBPM", None]], "ign": False})
    out.append({"kind": "SSC", "sf": [["VERSION", "0.83"], ["BPMS", "0=1"], ["DISPLAYBPM", None]], "ck": "none", "chart": [], "ign": False})
    # loaded from text: a chart that is its own timing source and names a range
    for d in ("150.000:300.000", "90", "*", "1:2:3"):
        out.append({"kind": "SSC", "sf": base_sf("0.83", "SSC"), "ck": "SSC", "chart": [["BPMS", "0.000=50.000"], ["DISPLAYBPM", d]], "ign": False, "text": True})
        out.append({"kind": "SSC", "sf": base_sf("0.83", "SSC")[:-3] + [["DISPLAYBPM", d]], "ck": "none", "chart": [], "ign": False, "text": True})
    return out


def rand_dbpm(rng):
    return rng.choice([None, "", "*", "120", "120.5", "100:200", "90.5:91", "150:150", "180:180.000", "abc", "1:x", ":", "1:2:3", " 150 ", "-5", "x:1",
                       "150:", ":150", "150:300:", "0=240", " : ", "1:", "1e2", ".5", "60:.5e2",
                       "0", "0.000", "-0", "0:150", "150:0", "0:0"])


def gen(rng, i, tier):
    en = enumeration()
    if i < len(en):
        return en[i]
    kind = rng.choice(["SM", "SSC", "SSC", "SSC"])
    v = rng.choice(VERSIONS + ["0.699", "0.71", "7", "0.07", "00.7"]) if kind == "SSC" else rng.choice([None, None, "0.7", "0.83", "1.0"])
    sf = []
    if v is not None:
        sf.append(["VERSION", v])
    sf.append(["BPMS", rng.choice(["0.000=120.000", "0.000=100,\n4.000=50.5,\n9=200", "0=60",
                                   "0.000=100,\n0.000=200", "0.000=60,\n0.010=240,\n4=120", "0=90,\n4=180,\n4.000=45", "0=128,\n32=128", "0=128,\n8=128.000,\n9=128",
                                   "0=150,32=-6000,32.5=150", "0=120,4=-300", "0=0,4=100", "0=-90"])])     # rows sharing a beat (or a tick) are all kept
    for key in ("OFFSET", "STOPS", "DELAYS", "WARPS", "FREEZES"):
        st = rng.choice(["absent", "empty", "value"])
        if key == "FREEZES" and (kind != "SM" or rng.random() < 0.6):
            continue
        if st != "absent":
            sf.append([key, "" if st == "empty" else (rng.choice(["0.5", "0.5", ".5", "-.25", "5e-3", "+1.5", " 0.125\n", "-1.25E-2", "soon"]) if key == "OFFSET" else rng.choice(["2.000=0.750", "2.000=0.750", "16.000=0.250,", "tba", "4=1=2"]))])
    d = rand_dbpm(rng)
    if rng.random() < 0.7:
        sf.append(["DISPLAYBPM", d])
    ck = rng.choice(["none", "SM", "SSC", "SSC", "SSC"])
    chart = []
    if ck == "SSC":
        for key in TKEYS:
            st = rng.choice(["absent"] * 4 + ["empty", "value", "blank"])
            if st == "blank":                    # white space only: not empty, so it still makes the chart its own timing source
                chart.append([key, rng.choice([" ", "\n", " \n "])])
                continue
            if st != "absent":
                val = NONEMPTY[key]
                if key == "BPMS" and rng.random() < 0.3:
                    val = rng.choice(["0.000=100,\n0.000=200", "0.000=60,\n0.010=240,\n4=120", "2=90,\n2=30"])
                chart.append([key, "" if st == "empty" else val])
        rng.shuffle(chart)
        for key in ("OFFSET", "DISPLAYBPM"):
            st = rng.choice(["absent", "empty", "value"])
            if st != "absent":
                chart.append([key, "" if st == "empty" else (rng.choice(["-2.25", "-2.25", ".5", "-.25", "5e-3", "+1.5", " 0.125\n"]) if key == "OFFSET" else (rand_dbpm(rng) or "77"))])
    return {"kind": kind, "sf": sf, "ck": ck, "chart": chart, "ign": rng.random() < 0.25, "text": rng.random() < 0.3}


N_QUICK = len(enumeration()) + 1200
N_THOROUGH = len(enumeration()) + 150000


def build(c):
    from simfile.sm import SMSimfile, SMChart
    from simfile.ssc import SSCSimfile, SSCChart
    if c.get("text"):
        # the same properties written out as a file's text and loaded: what a user opening a simfile has in hand
        par = lambda kk, vv: "#%s;\n" % kk if vv is None else "#%s:%s;\n" % (kk, vv)
        text = "".join(par(kk, vv) for kk, vv in c["sf"])
        if c["kind"] == "SSC" and c["ck"] == "SSC":
            text += "#NOTEDATA:;\n" + "".join(par(kk, vv) for kk, vv in c["chart"]) + "#NOTES:\n0000\n;\n"
            sf = SSCSimfile(string=text)
            return sf, sf.charts[0]
        sf = (SMSimfile if c["kind"] == "SM" else SSCSimfile)(string=text)
    else:
        sf = (SMSimfile if c["kind"] == "SM" else SSCSimfile)(string="")
        for kk, vv in c["sf"]:
            sf[kk] = vv
    if c["ck"] == "none":
        ch = None
    elif c["ck"] == "SM":
        ch = SMChart.blank()
    else:
        ch = SSCChart()
        for kk, vv in c["chart"]:
            ch[kk] = vv
    return sf, ch


def dobs(d):
    sign, digits, exp = d.as_tuple()
    if not isinstance(exp, int) or exp > 0:
        return ["sci", str(d)]
    return [bool(sign), int("".join(map(str, digits)) or "0"), -exp]


def bv(l):
    return [[[Fraction(b.beat).numerator, Fraction(b.beat).denominator], dobs(b.value)] for b in l]


def guard(f):
    try:
        return ["ok", f()]
    except KeyError:
        return ["err", "key"]
    except (ValueError, ArithmeticError, TypeError) as e:
        return ["err", "value"]


def impl(c):
    from simfile.timing import TimingData
    try:   # a private helper: observed when it exists, the public behaviour (TimingData, displaybpm) decides otherwise
        from simfile.timing._private.timingsource import timing_source
    except Exception:
        timing_source = None
    from simfile.timing.displaybpm import displaybpm, StaticDisplayBPM, RangeDisplayBPM, RandomDisplayBPM
    sf, ch = build(c)
    src = guard(lambda: "chart" if timing_source(sf, ch) is ch and ch is not None else "simfile") if timing_source else ["ok", "unobserved"]

    def td():
        t = TimingData(sf, ch)
        return [bv(t.bpms), bv(t.stops), bv(t.delays), bv(t.warps), dobs(t.offset)]

    def db():
        d = displaybpm(sf, ch, ignore_specified=c["ign"]) if ch is not None and c["ck"] == "SSC" else displaybpm(sf, ignore_specified=c["ign"])
        if isinstance(d, RandomDisplayBPM):
            return ["random"]
        if isinstance(d, StaticDisplayBPM):
            return ["static", dobs(d.value)]
        return ["range", dobs(d.min), dobs(d.max)]
    return {"source": src, "td": guard(td), "displaybpm": guard(db)}


def requests(c):
    sk = 0 if c["kind"] == "SM" else 1
    ck = {"none": 0, "SM": 1, "SSC": 2}[c["ck"]]
    chart = c["chart"] if c["ck"] == "SSC" else []
    return [[150, sk, G.enc_props(c["sf"]), ck, G.enc_props(chart), c["ign"]]]


def un_tri(a, f):
    if a[0] == 0:
        return ["ok", f(a[1])]
    return ["err", {1: "unmodelled", 2: "value", 3: "key"}[a[0]]]


def un_dec(d):
    return [bool(d[0]), d[1], d[2]]


def un_evs(l):
    out = []
    for t, d in l:
        f = Fraction(t, 48)
        out.append([[f.numerator, f.denominator], un_dec(d)])
    return out


def model(c, ans):
    a = ans[0][1]
    src = un_tri(a[0], lambda x: "chart" if x == 1 else "simfile")
    td = un_tri(a[1], lambda x: [un_evs(x[0]), un_evs(x[1]), un_evs(x[2]), un_evs(x[3]), un_dec(x[4])])
    db = un_tri(a[2], lambda x: ["static", un_dec(x[1])] if x[0] == 0 else ["range", un_dec(x[1]), un_dec(x[2])] if x[0] == 1 else ["random"])
    if "unmodelled" in (src[1], td[1], db[1]):
        return SKIP
    return {"source": src, "td": td, "displaybpm": db}


def agree(io, mo):
    if isinstance(io, dict) and io.get("source") == ["ok", "unobserved"] and isinstance(mo, dict):
        mo = dict(mo, source=io["source"])
    return io == mo


def ev_rows(s):
    """'beat=value' rows read independently of the library: every row kept, in order, beats snapped to the 1/48 tick"""
    if s is None or s == "":
        return []
    out = []
    for row in s.split(","):
        b, v = row.strip().split("=")
        beat = Fraction(round(Fraction(Decimal(b.strip())) * 48), 48)
        out.append([[beat.numerator, beat.denominator], dobs(Decimal(v.strip()))])
    return out


def oracle(c, o):
    """the rule, restated: chart iff SSC simfile >= 0.7 and SSC chart with a non-empty timing value; then everything from that source"""
    if "__harness_exc__" in o:
        return "library raised %s (%s)" % (o["__harness_exc__"], o.get("msg"))
    sfd = dict((kk, vv) for kk, vv in c["sf"])
    chd = dict((kk, vv) for kk, vv in c["chart"]) if c["ck"] == "SSC" else {}
    try:
        v = Decimal(sfd.get("VERSION") or "0")
    except Exception:
        return None
    want_chart = c["kind"] == "SSC" and c["ck"] == "SSC" and v >= Decimal("0.7") and any(chd.get(kk) for kk in TKEYS)
    if o["source"] != ["ok", "unobserved"] and o["source"] != ["ok", "chart" if want_chart else "simfile"]:
        return "timing source is %s, the rule says %s" % (o["source"], "chart" if want_chart else "simfile")
    src = chd if want_chart else sfd
    from simfile.timing import BeatValues
    if o["td"][0] == "ok":
        stops_key = "FREEZES" if (not want_chart and c["kind"] == "SM" and "STOPS" not in src and "FREEZES" in src) else "STOPS"
        try:
            want = [ev_rows(src.get("BPMS")), ev_rows(src.get(stops_key)), ev_rows(src.get("DELAYS")),
                    ev_rows(src.get("WARPS")), dobs(Decimal(src.get("OFFSET") or 0))]
        except Exception:
            return None
        if o["td"][1] != want:
            return "TimingData mixes sources or misreads a field: %s vs %s" % (str(o["td"][1])[:300], str(want)[:300])
    if o["displaybpm"][0] != "ok":
        try:
            ok_bpms = bool(src.get("BPMS")) and all(len(r.split("=")) == 2 and Decimal(r.split("=")[1].strip()) is not None and Decimal(r.split("=")[0].strip()) is not None
                                                    for r in src.get("BPMS").split(","))
        except Exception:
            ok_bpms = False
        if ok_bpms:
            return "displaybpm raised (%s) although the source's BPMS is well-formed: the displayed BPM depends on DISPLAYBPM and BPMS only" % (o["displaybpm"][1],)
    if o["displaybpm"][0] == "ok":
        d = src.get("DISPLAYBPM")
        want = None
        if d is not None and not c["ign"]:
            try:
                if d == "*":
                    want = ["random"]
                elif ":" in d:
                    a, _, b = d.partition(":")
                    want = ["range", dobs(Decimal(a)), dobs(Decimal(b))]
                else:
                    want = ["static", dobs(Decimal(d))]
            except Exception:
                want = None
        if want is None:
            vals = [Decimal(row.strip().split("=")[1].strip()) for row in (src.get("BPMS") or "").split(",")]
            want = ["static", dobs(vals[0])] if len(vals) == 1 else ["range", dobs(min(vals)), dobs(max(vals))]
        got = o["displaybpm"][1]
        if got != want:
            # equal decimals may print differently (min/max of equal values); compare numerically
            def num(x):
                return [x[0]] + [Fraction(-y[1] if y[0] else y[1], 10 ** y[2]) for y in x[1:]]
            if num(got) != num(want):
                return "displaybpm = %s, the rule gives %s" % (got, want)
    return None


def nontrivial(c, o):
    return c["kind"] == "SSC" and c["ck"] == "SSC"


def describe(c):
    v = dict((kk, vv) for kk, vv in c["sf"]).get("VERSION", "-")
    return "%s/v%s/%s/%dkeys" % (c["kind"], v, c["ck"], len([1 for kk, vv in c["chart"] if kk in TKEYS]))


def shrink(c):
    for i in range(len(c["chart"])):
        yield dict(c, chart=c["chart"][:i] + c["chart"][i + 1:])
    for i in range(len(c["sf"])):
        if c["sf"][i][0] not in ("VERSION", "BPMS"):
            yield dict(c, sf=c["sf"][:i] + c["sf"][i + 1:])
