"""C12 - time to beat conversion inverts beat to time on the tick grid."""
import math, random
from fractions import Fraction
from decimal import Decimal

from ..driver import SKIP
from .. import gen_timing as GT
from . import c11

ID = "C12"
RULE = ("timing data as for C11; times asked: the library's own time_at of every probe beat under every tag (exact on the dyadic family, where every "
        "float operation is exact), random times before/between/after all events, times inside every pause, times 1e-7 s and one ulp either side of "
        "every state time; each scenario also run with redundant BPM rows inserted; probes whose exact pre-rounding value lies within 1e-6 of a half "
        "tick, or whose time lies within 1e-9 s of (but not on) a state time, are skipped and counted; non-trivial = >= 2 events")
assumptions = c11.assumptions + ["on the general (non-dyadic) family boundary probes are skipped when float and rational could select different states"]
extra_trusted = c11.extra_trusted
_enum = {}


def corpus():
    out = list(c11.corpus())
    # F8 regression: BPMS 0=120[,1=120,2=120], STOPS 10=1, WARPS 8=4
    for extra in ([], [[48, "120"]], [[48, "120"], [96, "120"]], [[48, "120"], [96, "120"], [144, "120"]]):
        out.append({"td": {"family": "dyadic", "bpms": [[0, "120"]] + extra, "stops": [[480, "1"]], "delays": [], "warps": [[384, "4"]], "offset": "0"}, "extra": 0})
    out.append({"td": {"family": "dyadic", "bpms": [[0, "120"]], "stops": [[192, "0.5"]], "delays": [], "warps": [[192, "1"]], "offset": "0"}, "extra": 0})
    out.append({"td": {"family": "dyadic", "bpms": [[0, "120"]], "stops": [[216, "0.5"]], "delays": [[216, "0.25"]], "warps": [[192, "2"]], "offset": "0"}, "extra": 0})
    return out


def gen(rng, i, tier):
    en = c11.enumeration(3 if tier == "thorough" else 2)
    if i < len(en):
        return {"td": en[i], "extra": 0}
    return {"td": GT.rand_td(rng), "extra": rng.randrange(1, 1 << 30)}


N_QUICK = len(c11.enumeration(2)) + 500
N_THOROUGH = len(GT.small_grid_tds(3)) + 30000


def probe_times(c, eng):
    """[(time as float, tag)] - deterministic given the case and the library's own time_at"""
    from simfile.timing import Beat
    from simfile.timing.engine import EventTag
    rng = random.Random(c["extra"] or 7)
    beats = GT.probe_beats(c["td"], rng if c["extra"] else None)
    ts = []
    for b in beats:
        for t in range(7):
            x = float(eng.time_at(Beat(b, 48), EventTag(t)))
            ts.append((x, 5)); ts.append((x, 0)); ts.append((x, t))
    # state times and pauses through the public API only: every state sits on an event beat under some tag
    ev_beats = sorted({Fraction(b, 48) for k in ("bpms", "stops", "delays") for b, _ in c["td"][k]} |
                      {x for iv in warp_union(c["td"]) for x in iv} | {Fraction(0)})
    state_times = sorted({float(eng.time_at(Beat(b), EventTag(t))) for b in ev_beats for t in range(7)})
    for x in state_times:
        for d in (1e-7, -1e-7):
            ts.append((x + d, 5))
        ts.append((math.nextafter(x, math.inf), 5)); ts.append((math.nextafter(x, -math.inf), 5))
    # inside every pause
    for key, tg in (("stops", EventTag.STOP), ("delays", EventTag.DELAY)):
        for b, val in c["td"][key]:
            v = float(Decimal(val))
            t0 = float(eng.time_at(Beat(b, 48), tg))
            for fr in (0.25, 0.5, 0.999999):
                ts.append((t0 + v * fr, 5)); ts.append((t0 + v * fr, 0))
    lo, hi = state_times[0] - 3, state_times[-1] + 5
    for _ in range(12):
        ts.append((rng.uniform(lo, hi), rng.choice([0, 5, 5, 6])))
    seen, out = set(), []
    for p in ts:
        if p not in seen and abs(p[0]) < 1e5:
            seen.add(p); out.append(p)
    return out


_eng_cache = {}


def engines(c):
    import json
    k = json.dumps(c, sort_keys=True)
    if k not in _eng_cache:
        if len(_eng_cache) > 5000:
            _eng_cache.clear()
        from simfile.timing.engine import TimingEngine
        _eng_cache[k] = (TimingEngine(GT.mk_timing_data(c["td"])), TimingEngine(GT.mk_timing_data(c11.with_redundant_bpms(c["td"]))))
    return _eng_cache[k]


def impl(c):
    from simfile.timing.engine import EventTag
    eng, eng2 = engines(c)
    ps = probe_times(c, eng)
    fq = lambda b: [Fraction(b).numerator, Fraction(b).denominator]
    ans = [fq(eng.beat_at(t, EventTag(tag))) for t, tag in ps]
    ans2 = [fq(eng2.beat_at(t, EventTag(tag))) for t, tag in ps]
    # query history: the same questions again on the same engine, backwards and shuffled - every answer must repeat
    idx = list(range(len(ps)))
    back = {i: fq(eng.beat_at(ps[i][0], EventTag(ps[i][1]))) for i in reversed(idx)}
    random.Random(11).shuffle(idx)
    shuf = {i: fq(eng.beat_at(ps[i][0], EventTag(ps[i][1]))) for i in idx}
    unstable = [i for i in range(len(ps)) if back[i] != ans[i] or shuf[i] != ans[i]]
    # beat -> time -> beat, under the default tag, for every probe beat
    from simfile.timing import Beat
    rng = random.Random(c["extra"] or 7)
    bs = GT.probe_beats(c["td"], rng if c["extra"] else None)
    rt = [[b, fq(eng.beat_at(eng.time_at(Beat(b, 48))))] for b in bs]
    # beat 0 under the warp tags, both ways: the keys (0, WARP) and (0, WARP_END) precede the initial state's own key
    rt0 = [fq(eng.beat_at(eng.time_at(Beat(0), EventTag(tg)), EventTag.WARP)) for tg in (0, 1)] + [float(eng.time_at(Beat(0), EventTag(tg))) == float(eng.time_at(Beat(0), EventTag.BPM)) for tg in (0, 1)]
    # the time at which each warp segment elapses, as the library itself reports it (any offset, any family), asked back under both tags
    wrt = []
    for a, e in warp_union(c["td"]):
        T = eng.time_at(Beat(a.numerator, a.denominator), EventTag.WARP)
        wrt.append([fq(a), fq(e), fq(eng.beat_at(T, EventTag.WARP)), fq(eng.beat_at(T))])
    return {"probes": [[t.hex(), tag] for t, tag in ps], "beats": ans, "beats_redundant": ans2, "roundtrip": rt, "unstable": unstable[:5], "rt0": rt0, "warp_rt": wrt}


def warp_union(td):
    segs = []
    for b, v in sorted((Fraction(b, 48), GT.round_tick(Fraction(Decimal(v)))) for b, v in td["warps"]):
        if segs and b <= segs[-1][1]:
            segs[-1][1] = max(segs[-1][1], b + v)
        else:
            segs.append([b, b + v])
    return [(a, e) for a, e in segs if e > a]


def requests(c):
    eng, _ = engines(c)
    ps = probe_times(c, eng)
    pa = [[list(Fraction(t).as_integer_ratio()), tag] for t, tag in ps]
    return [[110, GT.td_q(c["td"]), [], [], [], pa]]


def model(c, ans):
    a = ans[0][1]
    if a[0] != 0:
        return {"error": a[0]}
    eng, _ = engines(c)
    ps = probe_times(c, eng)
    st_times = [GT.un_q(s[3]) for s in a[1]]
    dy = c["td"]["family"] == "dyadic"
    beats, skip = [], []
    for (t, tag), r in zip(ps, a[5]):
        ft = Fraction(t)
        b, raw = GT.un_q(r[0]), GT.un_q(r[1])
        amb = False
        frac = raw - math.floor(raw)
        if abs(frac - Fraction(1, 2)) < Fraction(1, 10 ** 6):
            amb = True                       # exact half-tick tie (or within float noise of one)
        if not dy and any(0 < abs(ft - x) < Fraction(1, 10 ** 9) for x in st_times):
            amb = True                       # float and rational may select different states
        if not dy and any(ft == x for x in st_times):
            amb = True                       # exact hit on a rational state time cannot be trusted in float
        beats.append([b.numerator, b.denominator]); skip.append(amb)
    return {"probes": [[t.hex(), tag] for t, tag in ps], "beats": beats, "skip": skip}


def agree(io, mo):
    if "__harness_exc__" in io or "error" in mo:
        return False
    if io["probes"] != mo["probes"]:
        return False
    for (h, tag), got, got2, want, sk in zip(io["probes"], io["beats"], io["beats_redundant"], mo["beats"], mo["skip"]):
        if sk:
            continue
        if got != want:
            return False
        if tag in (0, 5) and got2 != want:     # the property claims prefix-independence for the WARP tag and the default
            return False
    return True


def extra_coverage():
    return {}


def oracle(c, o):
    if "__harness_exc__" in o:
        return "library raised %s (%s)" % (o["__harness_exc__"], o.get("msg"))
    td = c["td"]
    dy = td["family"] == "dyadic"
    ps = [(float.fromhex(h), tag) for h, tag in o["probes"]]
    beats = [Fraction(*b) for b in o["beats"]]
    if o.get("rt0") is not None and o["rt0"] != [[0, 1], [0, 1], True, True]:
        return "beat 0 under the WARP / WARP_END tags: time_at must be the time of beat 0 and beat_at(.., WARP) of it beat 0; got %s" % (o["rt0"],)
    if o.get("unstable"):
        i = o["unstable"][0]
        return "beat_at(%r, %s) answered %s at first and something else when asked again on the same engine (other queries in between)" % (ps[i][0], GT.TAGS[ps[i][1]], beats[i])
    # tick aligned
    for (t, tag), b in zip(ps, beats):
        if (b * 48).denominator != 1:
            return "beat_at(%r) = %s is not tick-aligned" % (t, b)
    # never decreases as time increases (same tag)
    for tagv in (0, 5):
        seq = sorted((t, b) for (t, tag), b in zip(ps, beats) if tag == tagv)
        for (t1, b1), (t2, b2) in zip(seq, seq[1:]):
            if t2 > t1 and b2 < b1:
                return "beat_at decreases: t=%r -> %s, t=%r -> %s (tag %s)" % (t1, b1, t2, b2, GT.TAGS[tagv])
    # strictly inside a pause -> the paused beat; own time within half a tick (+ pause) otherwise
    pauses = {}
    for f, end_tag in (("stops", 6), ("delays", 4)):
        for b, v in td[f]:
            bb = Fraction(b, 48)
            pauses.setdefault(bb, []).append((GT.spec_time(td, bb, end_tag - 1), GT.spec_time(td, bb, end_tag)))
    for (t, tag), b in zip(ps, beats):
        ft = Fraction(t)
        for pb, ivs in pauses.items():
            for (a0, a1) in ivs:
                if a0 + Fraction(1, 10 ** 6) < ft < a1 - Fraction(1, 10 ** 6) and b != pb:
                    return "time %r lies strictly inside the pause on beat %s but beat_at gives %s" % (t, pb, b)
    segs = warp_union(td)
    pause_beats = sorted(pauses)
    # a tick-aligned beat that no warp skips over comes back from its own time (the library's own float, whatever the offset)
    for b48, back in o.get("roundtrip", []):
        b = Fraction(b48, 48)
        if not any(a <= b < e for a, e in segs) and Fraction(*back) != b:
            return "beat %s -> time_at -> beat_at gives %s" % (b, Fraction(*back))
    for a, e, gw, gd in o.get("warp_rt", []):
        a, e, gw, gd = Fraction(*a), Fraction(*e), Fraction(*gw), Fraction(*gd)
        far = min([pb for pb in pause_beats if a <= pb <= e] + [e])
        if gw != a:
            return "at the time the warp segment [%s, %s) elapses (time_at of its start under the WARP tag) beat_at(.., WARP) = %s, not its start" % (a, e, gw)
        if gd != far:
            return "at the time the warp segment [%s, %s) elapses beat_at(..) = %s; the furthest beat reached at that time is %s" % (a, e, gd, far)
    if dy:
        # at the time at which a whole warp segment elapses: WARP tag -> its start, default -> the furthest beat reached at that time
        for a, e in segs:
            T = GT.spec_time(td, a, 0)
            far = min([pb for pb in pause_beats if a <= pb <= e] + [e])
            for (t, tag), b in zip(ps, beats):
                if Fraction(t) == T:
                    if tag == 0 and b != a:
                        return "beat_at(%r, WARP) = %s at the time the warp segment [%s, %s) elapses; it starts at %s" % (t, b, a, e, a)
                    if tag == 5 and b != far:
                        return "beat_at(%r) = %s at the time the warp segment [%s, %s) elapses; the furthest beat reached at that time is %s" % (t, b, a, e, far)
    # the answer's own time lies within half a tick's duration of the asked time (widened by any pause on that beat)
    tol = Fraction(1, 10 ** 9) if dy else Fraction(1, 10 ** 6)
    for (t, tag), b in zip(ps, beats):
        if tag != 5:
            continue
        ft = Fraction(t)
        lo, hi = GT.spec_time(td, b, 0), GT.spec_time(td, b, 6)
        h = max(Fraction(60) / GT.spec_bpm(td, x) for x in (b, b - Fraction(1, 48), b + Fraction(1, 48))) / 96
        if ft < lo - h - tol or ft > hi + h + tol:
            return "beat_at(%r) = %s, whose own time [%s, %s] is more than half a tick (%s s) away" % (t, b, float(lo), float(hi), float(h))
    # redundant rows
    if dy:
        for (t, tag), b, b2 in zip(ps, o["beats"], o["beats_redundant"]):
            if tag in (0, 5) and b != b2:
                return "beat_at(%r, %s) depends on redundant BPM rows: %s vs %s" % (t, GT.TAGS[tag], b, b2)
    return None


def nontrivial(c, o):
    return c11.nontrivial(c, o)


describe = c11.describe
shrink = c11.shrink
