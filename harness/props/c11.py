"""C11 - beat to time conversion matches the exact timeline for all event interleavings."""
from fractions import Fraction
from decimal import Decimal

from ..driver import SKIP
from .. import gen_timing as GT

ID = "C11"
RULE = ("timing data: all placements of up to 2 (quick) / 3 (thorough) events on a 4-beat grid, random dyadic and general data with coinciding events, "
        "corpus simfiles; probes: every event beat and warp end +-1 tick, negative and random beats, beats off the tick grid a hundredth / a thousandth of a beat either side of them, all seven tags; time within 1e-9 s of the exact "
        "rational timeline, bpm_at exact; every probe asked again on the same engine in descending and in shuffled order with other queries in between; second scenario with the offset shifted and with redundant BPM rows inserted; non-trivial = >= 2 events")
assumptions = ["binary64 evaluation stays within 1e-9 s of the exact rational on the bounded domain (times < 1e5 s, BPM <= 2000): measured here, not proved"]
extra_trusted = ["Python Fraction/Decimal for the exact reference timeline (harness oracle)"]
TOL = Fraction(1, 10 ** 9)
_enum = {}


def enumeration(k):
    if k not in _enum:
        _enum[k] = GT.small_grid_tds(k)
    return _enum[k]


def corpus():
    out = []
    import simfile
    from ..gen_simfile import corpus_files
    from simfile.timing import TimingData
    from .. import lib
    import os
    for f, _ in corpus_files():
        try:
            sf = simfile.open(os.path.join(lib.REPO, f))
            td = TimingData(sf)
            if not td.bpms:
                continue
            d = {"family": "general", "offset": str(td.offset)}
            ok = True
            for fld in ("bpms", "stops", "delays", "warps"):
                d[fld] = []
                for bv in getattr(td, fld):
                    t = bv.beat * 48
                    if t.denominator != 1 or bv.value <= 0:
                        ok = False
                    d[fld].append([int(t), str(bv.value)])
            if ok:
                out.append({"td": d, "extra": 0})
        except Exception:
            continue
    # stop on a delay at a warp start with a BPM change inside the warp; events at beat 0; nested warps
    out.append({"td": {"family": "dyadic", "bpms": [[0, "120"], [216, "240"]], "stops": [[192, "0.5"]], "delays": [[192, "0.25"]], "warps": [[192, "2"]], "offset": "0"}, "extra": 0})
    out.append({"td": {"family": "dyadic", "bpms": [[0, "120"]], "stops": [[0, "0.5"]], "delays": [[0, "0.25"]], "warps": [[0, "1"]], "offset": "0.25"}, "extra": 0})
    out.append({"td": {"family": "dyadic", "bpms": [[0, "120"]], "stops": [], "delays": [], "warps": [[48, "4"], [96, "1"], [192, "2"]], "offset": "0"}, "extra": 0})
    out.append({"td": {"family": "dyadic", "bpms": [[0, "120"]], "stops": [], "delays": [], "warps": [[192, "4"], [240, "0.5"], [288, "0.5"]], "offset": "0"}, "extra": 0})
    return out


def gen(rng, i, tier):
    en = enumeration(3 if tier == "thorough" else 2)
    if i < len(en):
        return {"td": en[i], "extra": 0}
    return {"td": GT.rand_td(rng), "extra": rng.randrange(1, 1 << 30)}


N_QUICK = len(enumeration(2)) + 700
N_THOROUGH = len(GT.small_grid_tds(3)) + 30000


def probes(c):
    import random
    rng = random.Random(c["extra"]) if c["extra"] else None
    beats = GT.probe_beats(c["td"], rng)
    return [(b, t) for b in beats for t in range(7)]


def off_probes(c):
    """beats off the 1/48 grid: a hundredth and a thousandth of a beat either side of every event beat and warp end, a third of a tick
    after it, and a few arbitrary fractions; as exact (numerator, denominator) pairs"""
    td = c["td"]
    pts = {0}
    for f in ("bpms", "stops", "delays", "warps"):
        for b, v in td[f]:
            pts.add(b)
            if f == "warps":
                pts.add(b + round(Fraction(Decimal(v)) * 48))
    out = []
    for p in sorted(pts)[:12]:
        base = Fraction(p, 48)
        for d in (Fraction(-1, 100), Fraction(1, 1000), Fraction(-1, 1000), Fraction(1, 144), Fraction(1, 7)):
            q = base + d
            out.append((q.numerator, q.denominator))
    return out


def with_redundant_bpms(td):
    """the same timing with a BPM row repeating the BPM in force inserted before every event"""
    bpms = [(b, v) for b, v in td["bpms"]]
    have = {b for b, v in bpms}
    add = set()
    for f in ("stops", "delays", "warps"):
        for b, v in td[f]:
            for x in (b - 24, b + 24):
                if x > 0 and x not in have:
                    add.add(x)
    out = list(bpms)
    for x in sorted(add):
        cur = [v for b, v in bpms if b <= x][-1]
        out.append([x, cur])
    out.sort(key=lambda e: e[0])
    return dict(td, bpms=[[b, v] for b, v in out])


def impl(c):
    from simfile.timing import Beat
    from simfile.timing.engine import TimingEngine, EventTag
    td = c["td"]
    eng = TimingEngine(GT.mk_timing_data(td))
    ps = probes(c)
    times = [float(eng.time_at(Beat(b, 48), EventTag(t))) for b, t in ps]
    bpms = [str(eng.bpm_at(Beat(b, 48))) for b in sorted({b for b, _ in ps})]
    default = [float(eng.time_at(Beat(b, 48))) for b in sorted({b for b, _ in ps})]
    # the same engine asked again, in descending and in shuffled order, with other queries in between: answers have no memory
    back = [float(eng.time_at(Beat(b, 48), EventTag(t))) for b, t in reversed(ps)][::-1]
    order = list(range(len(ps)))
    import random as _r
    _r.Random(len(ps) * 7919 + c["extra"]).shuffle(order)
    shuf = [None] * len(ps)
    for j, i in enumerate(order):
        b, t = ps[i]
        if j % 3 == 0:
            eng.bpm_at(Beat(b, 48)); eng.hittable(Beat(b, 48))
        if j % 5 == 0:
            eng.beat_at(float(j % 7) - 1.0)
        shuf[i] = float(eng.time_at(Beat(b, 48), EventTag(t)))
    # shifted offset and redundant BPM rows
    td2 = dict(td, offset=str(Decimal(td["offset"]) + Decimal("1.5")))
    eng2 = TimingEngine(GT.mk_timing_data(td2))
    shifted = [float(eng2.time_at(Beat(b, 48), EventTag(t))) for b, t in ps]
    eng3 = TimingEngine(GT.mk_timing_data(with_redundant_bpms(td)))
    redundant = [float(eng3.time_at(Beat(b, 48), EventTag(t))) for b, t in ps]
    offp = off_probes(c)
    off_times = [[float(eng.time_at(Beat(n, d), EventTag(t))) for t in range(7)] for n, d in offp]
    off_bpms = [str(eng.bpm_at(Beat(n, d))) for n, d in offp]
    return {"times": times, "bpms": bpms, "default": default, "shifted": shifted, "redundant": redundant, "back": back, "shuf": shuf,
            "off_times": off_times, "off_bpms": off_bpms}


def requests(c):
    ps = probes(c)
    pt = [[[b, 48], t] for b, t in ps]
    pb = [[b, 48] for b in sorted({b for b, _ in ps})]
    offp = off_probes(c)
    return [[110, GT.td_q(c["td"]), pt, pb, [], []],
            [110, GT.td_q(c["td"]), [[[n, d], t] for n, d in offp for t in range(7)], [[n, d] for n, d in offp], [], []]]


def model(c, ans):
    a = ans[0][1]
    if a[0] != 0:
        return {"error": a[0]}
    ps = probes(c)
    times = [GT.un_q(x) for x in a[2]]
    bs = sorted({b for b, _ in ps})
    stop_tag = {b: times[i] for i, (b, t) in enumerate(ps) if t == 5}
    fq = lambda q: [q.numerator, q.denominator]
    a2 = ans[1][1]
    ot = [GT.un_q(x) for x in a2[2]] if a2[0] == 0 else []
    return {"times": [fq(t) for t in times], "bpms": [fq(GT.un_q(x)) for x in a[3]], "default": [fq(stop_tag[b]) for b in bs],
            "shifted": [fq(t - Fraction(3, 2)) for t in times], "redundant": [fq(t) for t in times],
            "back": [fq(t) for t in times], "shuf": [fq(t) for t in times],
            "off_times": [[fq(t) for t in ot[i * 7:i * 7 + 7]] for i in range(len(ot) // 7)], "off_bpms": [fq(GT.un_q(x)) for x in a2[3]] if a2[0] == 0 else []}


def close(f, q):
    if isinstance(q, list):
        q = Fraction(q[0], q[1])
    return abs(Fraction(f) - q) <= TOL


def agree(io, mo):
    if "__harness_exc__" in io or "error" in mo:
        return False
    if not all(close(f, q) for f, q in zip(io["times"], mo["times"])):
        return False
    if [Fraction(Decimal(x)) for x in io["bpms"]] != [Fraction(q[0], q[1]) for q in mo["bpms"]]:
        return False
    if [Fraction(Decimal(x)) for x in io["off_bpms"]] != [Fraction(q[0], q[1]) for q in mo["off_bpms"]]:
        return False
    if len(io["off_times"]) != len(mo["off_times"]) or not all(close(f, q) for row, mrow in zip(io["off_times"], mo["off_times"]) for f, q in zip(row, mrow)):
        return False
    return all(close(f, q) for k in ("default", "shifted", "redundant", "back", "shuf") for f, q in zip(io[k], mo[k]))


def oracle(c, o):
    if "__harness_exc__" in o:
        return "library raised %s (%s)" % (o["__harness_exc__"], o.get("msg"))
    td = c["td"]
    ps = probes(c)
    for (b, t), got, sh, rd, bk, sf in zip(ps, o["times"], o["shifted"], o["redundant"], o["back"], o["shuf"]):
        want = GT.spec_time(td, Fraction(b, 48), t)
        if not close(bk, want) or not close(sf, want):
            return "time_at(beat %s, %s) depends on the queries made before it on the same engine: %r (descending order) / %r (shuffled) vs exact %s" % (
                Fraction(b, 48), GT.TAGS[t], bk, sf, float(want))
        if not close(got, want):
            return "time_at(beat %s, %s) = %r, exact timeline gives %s" % (Fraction(b, 48), GT.TAGS[t], got, float(want))
        if not close(sh, want - Fraction(3, 2)):
            return "offset +1.5 moved time_at(beat %s, %s) by %r, not -1.5" % (Fraction(b, 48), GT.TAGS[t], sh - got)
        if not close(rd, want):
            return "redundant BPM rows changed time_at(beat %s, %s): %r vs %r" % (Fraction(b, 48), GT.TAGS[t], rd, got)
    # monotone in (beat, tag)
    ts = o["times"]
    for i in range(len(ts) - 1):
        if ts[i + 1] < ts[i] - 1e-9:
            return "time decreases from %s to %s" % (ps[i], ps[i + 1])
    bs = sorted({b for b, _ in ps})
    for b, got in zip(bs, o["bpms"]):
        if Fraction(Decimal(got)) != GT.spec_bpm(td, Fraction(b, 48)):
            return "bpm_at(%s) = %s, last BPM change at or before it is %s" % (Fraction(b, 48), got, GT.spec_bpm(td, Fraction(b, 48)))
    # beats off the tick grid
    for (n, d), row, gb in zip(off_probes(c), o["off_times"], o["off_bpms"]):
        q = Fraction(n, d)
        if Fraction(Decimal(gb)) != GT.spec_bpm(td, q):
            return "bpm_at(%s) = %s, last BPM change at or before it is %s" % (q, gb, GT.spec_bpm(td, q))
        for t, got in enumerate(row):
            want = GT.spec_time(td, q, t)
            if not close(got, want):
                return "time_at(beat %s, %s) = %r, exact timeline gives %s" % (q, GT.TAGS[t], got, float(want))
    return None


def nontrivial(c, o):
    td = c["td"]
    return len(td["bpms"]) + len(td["stops"]) + len(td["delays"]) + len(td["warps"]) >= 3


def describe(c):
    td = c["td"]
    return "%s/b%d s%d d%d w%d" % (td["family"], len(td["bpms"]), len(td["stops"]), len(td["delays"]), len(td["warps"]))


def shrink(c):
    td = c["td"]
    for f in ("stops", "delays", "warps", "bpms"):
        for i in range(len(td[f])):
            if f == "bpms" and i == 0:
                continue
            yield dict(c, td=dict(td, **{f: td[f][:i] + td[f][i + 1:]}))
