"""C06 - a failed or cancelled mutate never damages the input file."""
import random

from ..driver import SKIP
from ..lib import S
from .. import gen_simfile as G
from .. import fsharness as F
from . import c05

ID = "C06"
RULE = ("fault points enumerated, not sampled: every exception class (Exception subclasses, KeyboardInterrupt, SystemExit, GeneratorExit, CancelMutation) "
        "raised at every position of an edit script; an unserialisable property value / a chart without note data; an unencodable character for each "
        "detected encoding (also with errors= handlers that still refuse it passed through); an earlier attempt on the same file that did not save (unserialisable value, raising body, cancelled) followed by the retry; a failure injected at each semantic file-system step of the save (open-for-write, write, close of the backup and of the "
        "output) x backup/output configurations x {.sm,.ssc} x native and in-memory file systems; compares final directory contents and the "
        "escaping exception class; non-trivial = a fault or exception actually fired")
assumptions = c05.assumptions + ["what a failed write leaves in the file being written is not claimed (the model leaves it empty); the comparison ignores "
                                  "the content of a file whose own write or close failed"]
extra_trusted = c05.extra_trusted
_enum = None

EXCS = ["RuntimeError", "KeyError", "KeyboardInterrupt", "SystemExit", "GeneratorExit", "CancelMutation", "UnicodeEncodeError", "OSError", "AttributeError", "TypeError"]
BASE_OPS = [["attr", "title", "edited"], ["set", "CREDIT", "x"], ["dupchart"]]
# earlier attempts on the same file that do not save: an unserialisable value met after other properties were written, a body that raises, a cancelled one
PRE = [[["set", "CREDIT", "x"], ["badvalue", "GENRE"]], [["attr", "title", "t"], ["raise", "RuntimeError"]], [["dupchart"], ["badvalue", "ZZ"], ["raise", "CancelMutation"]]]
UNENC = {"utf-8": "\udc80", "cp1252": "猫", "cp932": "한", "cp949": "\U0001f600"}


def base_case(fmt, codec, fs, output, backup):
    r = random.Random(hash((fmt, codec)) & 0xffff)
    text = "// not the library's own layout\n#TITLE:%s;\n#ARTIST:%s;\n#BPMS:0.000=120.000;\n#SUBTITLE;\n#ATTACKS;\n#DISPLAYBPM;\n" % (F.rand_str(r, codec, 3), F.rand_str(r, codec, 2))
    if fmt == "ssc":
        text = "#VERSION:0.83;\n" + text + "#NOTEDATA:;\n#STEPSTYPE:dance-single;\n#NOTES:\n0000\n;\n"
    else:
        text += "#NOTES:dance-single::Easy:1:0,0:\n0000\n;\n"
    data = text.encode(codec)
    # make sure the intended codec is the detected one: prefix the try list with it
    return {"fmt": fmt, "data": data.hex(), "try": [codec], "explicit": None, "output": output, "backup": backup, "ops": [], "fs": fs, "seed": 0,
            "fault": None}


def enumeration():
    global _enum
    if _enum is None:
        out = []
        for fmt in ("sm", "ssc"):
            for fs in ("native", "mem"):
                for output in (False, True, "same"):
                    for backup in (None, "ok", "clash_input", "clash_output"):
                        if backup == "clash_output" and not output:
                            continue
                        b = base_case(fmt, "cp1252" if fmt == "sm" else "utf-8", fs, output, backup)
                        # exceptions at every position of the edit script
                        for ex in EXCS:
                            for pos in range(len(BASE_OPS) + 1):
                                out.append(dict(b, ops=BASE_OPS[:pos] + [["raise", ex]] + BASE_OPS[pos:]))
                        # every semantic fault point of the save
                        for which in (["bak", "out"] if backup else ["out"]):
                            for kind in ("open", "write", "close"):
                                out.append(dict(b, ops=BASE_OPS, fault=[kind, which]))
                        # unserialisable
                        out.append(dict(b, ops=[["badvalue", "GENRE"]]))
                        if fmt == "ssc":
                            out.append(dict(b, ops=[["dropnotes"]]))
                        if backup == "ok":          # a file already at the backup path: it is replaced by this call's original before the output is touched
                            out.append(dict(b, ops=BASE_OPS, stale_bak=True))
                            for which in ("bak", "out"):
                                for kind in ("open", "write", "close"):
                                    out.append(dict(b, ops=BASE_OPS, fault=[kind, which], stale_bak=True))
                        # a failed attempt first, then the retry on the same file (every fault point of the retry)
                        for pre in PRE:
                            out.append(dict(b, ops=BASE_OPS, before=pre))
                            for which in (["bak", "out"] if backup == "ok" else ["out"]):
                                for kind in ("open", "write", "close"):
                                    out.append(dict(b, ops=BASE_OPS, fault=[kind, which], before=pre))
                # files with Windows line endings, and with both kinds: saved like any other, on either file system
                for output in (False, True):
                    for backup in (None, "ok"):
                        b = base_case(fmt, "utf-8", fs, output, backup)
                        t0 = bytes.fromhex(b["data"]).decode("utf-8")
                        for t1 in (t0.replace("\n", "\r\n"), t0.replace("\n", "\r\n", 2)):
                            out.append(dict(b, data=t1.encode("utf-8").hex(), ops=BASE_OPS))
                            out.append(dict(b, data=t1.encode("utf-8").hex(), ops=[]))
                if fmt == "ssc":
                    for output in (False, True):
                        for backup in (None, "ok"):
                            b = base_case(fmt, "utf-8", fs, output, backup)
                            b["data"] = "#VERSION:0.83;\n#TITLE:t;\n#NOTEDATA:;\n#STEPSTYPE:dance-single;\n#CREDIT:c;\n".encode("utf-8").hex()
                            out.append(dict(b, ops=[]))
                            out.append(dict(b, ops=BASE_OPS, fault=["open", "out"]))
                # unencodable character for each detected encoding
                for codec in F.DEFAULT_ENCODINGS:
                    for output in (False, True):
                        b = base_case(fmt, codec, fs, output, "ok")
                        out.append(dict(b, ops=[["attr", "artist", "x" + UNENC[codec]]]))
                        # the same with an error handler passed through to open(): handlers that still refuse the character (the file decodes
                        # strictly in the one tried encoding, so the handler plays no part in reading it)
                        for errors in (("strict",) if codec == "utf-8" else ("strict", "surrogateescape", "surrogatepass")):
                            for backup in (None, "ok"):
                                out.append(dict(b, backup=backup, errors=errors, ops=[["attr", "artist", "x" + UNENC[codec]]]))
        _enum = out
    return _enum


def corpus():
    return []


def gen(rng, i, tier):
    en = enumeration()
    if i < len(en):
        return en[i]
    c = c05.gen(rng, i, tier)
    c["fault"] = rng.choice([None, ["open", "out"], ["write", "out"], ["close", "out"], ["open", "bak"], ["write", "bak"], ["close", "bak"]])
    if c["backup"] in ("clash_input", "clash_output") and rng.random() < 0.5:
        c["backup"] = "ok"                      # half of the name clashes are kept: the refusal must come before any write, faults or not
    pos = rng.randrange(len(c["ops"]) + 1)
    if rng.random() < 0.4:
        c["ops"] = c["ops"][:pos] + [["raise", rng.choice(EXCS)]] + c["ops"][pos:]
    elif rng.random() < 0.2:
        c["ops"] = c["ops"] + [["badvalue", "GENRE"]]
    if rng.random() < 0.3:
        c["before"] = rng.choice(PRE)
    if c["backup"] == "ok" and rng.random() < 0.3:
        c["stale_bak"] = True
    if c["fmt"] == "ssc" and rng.random() < 0.12:
        # an input whose own chart cannot be serialised as it stands: a NOTEDATA section without note data
        c["data"] = ("#VERSION:0.83;\n#TITLE:t;\n#BPMS:0.000=120.000;\n#NOTEDATA:;\n#STEPSTYPE:dance-single;\n#CREDIT:c;\n"
                     + rng.choice(["", "#NOTEDATA:;\n#STEPSTYPE:dance-double;\n#NOTES:\n0000\n;\n"])).encode("utf-8").hex()
    return c


N_QUICK = len(enumeration()) + 200
N_THOROUGH = len(enumeration()) + 20000


def impl(c):
    import simfile
    data = bytes.fromhex(c["data"])
    sc = F.Scenario(c["fs"], c05.inname(c), data)
    try:
        out, bak = c05.names(c, sc)
        fault = None
        if c["fault"]:
            target = (bak if c["fault"][1] == "bak" else (out or sc.input))
            fault = (c["fault"][0], target) if target else None
        if c.get("stale_bak") and bak and bak != sc.input and bak != out:
            sc.write_bytes(bak, c05.STALE)          # a file left at the backup path by an earlier run
        fsys = F.FaultFS(sc.inner, fault)
        kw = {"filesystem": fsys}
        if c["try"]:
            kw["try_encodings"] = c["try"]
        if c.get("errors"):
            kw["errors"] = c["errors"]              # passed through to every open() the library makes
        entry = exitobs = None
        exc = None
        body_exc = None
        pre = None
        if c.get("before"):
            # an earlier attempt on the same file, in the same process, that ends without saving
            pre_exc = None
            try:
                kw0 = dict(kw, filesystem=F.FaultFS(sc.inner))
                with simfile.mutate(sc.input, **kw0) as sf0:
                    F.apply_ops(sf0, c["before"])
            except BaseException as e:
                pre_exc = type(e).__name__
            pre = {"exc": pre_exc, "files": sc.snapshot()}
        try:
            with simfile.mutate(sc.input, output_filename=out, backup_filename=bak, **kw) as sf:
                entry = G.sf_obs(sf)
                try:
                    F.apply_ops(sf, c["ops"])
                except BaseException as e:
                    body_exc = type(e).__name__
                    raise
                try:
                    exitobs = G.sf_obs(sf)
                except Exception:
                    exitobs = "unobservable"
        except BaseException as e:
            exc = type(e).__name__
            same_object = e is F.LAST_RAISED[0]
        res = {"exc": exc, "body_exc": body_exc, "files": sc.snapshot(), "entry": entry, "exit": exitobs, "fault_fired": fsys.hits}
        if body_exc and body_exc != "CancelMutation" and exc is not None:
            res["same_object"] = same_object
        if pre is not None:
            res["pre"] = pre
        # whatever backup exists must parse to the entry simfile
        if bak and bak in res["files"] and not (c["fault"] and c["fault"][1] == "bak" and fsys.hits):
            enc = (c["try"] or F.DEFAULT_ENCODINGS)
            det = next((e for e in enc if F.text_mode_decode(data, e) is not None), None)
            res["bak_parses_to"] = G.guarded(lambda: G.sf_obs(c05.parse_as(c["fmt"], bak, det, F.FaultFS(sc.inner))))
        return res
    finally:
        sc.close()


_impl_cache = {}


def cached_impl(c):
    import json, sys
    k = json.dumps(c, sort_keys=True)
    if k not in _impl_cache:
        if len(_impl_cache) > 3000:
            _impl_cache.clear()
        from ..driver import safe_impl
        _impl_cache[k] = safe_impl(sys.modules[__name__], c)
    return _impl_cache[k]


def unserialisable(c):
    return any(op[0] == "badvalue" for op in c["ops"])


def requests(c):
    o = cached_impl(c)
    inp, out, bak = c05.paths(c)
    if "__harness_exc__" in o or unserialisable(c):
        return []
    if o.get("body_exc") == "CancelMutation":
        body = [1]
    elif o.get("body_exc"):
        body = [2, F.EXC_IDS.get(o["body_exc"], 1)]
    elif isinstance(o.get("exit"), list):
        body = [0, c05.enc_simfile(o["exit"])]
    else:
        body = [1]
    data = bytes.fromhex(c["data"])
    encs = c["try"] or F.DEFAULT_ENCODINGS
    det = next((e for e in encs if F.text_mode_decode(data, e) is not None), None)
    bad = []
    if det and isinstance(o.get("exit"), list):
        texts = "".join((v or "") + k for k, v in o["exit"][1])
        for ch in o["exit"][2]:
            texts += "".join(str(x) for x in (ch[0] if o["exit"][0] == "SM" else [v or "" for k, v in ch]))
        for chx in set(texts):
            try:
                chx.encode(det)
            except UnicodeEncodeError:
                bad.append(ord(chx))
    fault = None
    if c["fault"]:
        target = bak if c["fault"][1] == "bak" else (out or inp)
        if target:
            fault = [{"open": 0, "write": 1, "close": 2}[c["fault"][0]], target]
    return [c05.build_request(c, inp, out, bak, body, bad, fault)]


def model(c, ans):
    if not ans:
        return SKIP
    data = bytes.fromhex(c["data"])
    encs = c["try"] or F.DEFAULT_ENCODINGS
    a = ans[0][1]
    files = {S(p): c05.decode_content(x, data, encs) for p, x in a[0]}
    exc = None if a[1] == [] else (c05.EXN.get(a[1][0]) or F.EXC_BY_ID.get(a[1][1] if len(a[1]) > 1 else 0))
    return {"files": files, "exc": exc}


def agree(io, mo):
    if "__harness_exc__" in io or "__model_decode_error__" in mo:
        return False
    fi, fm = c05.canon_files(io["files"]), dict(mo["files"])
    if mo["exc"] == "OSError":
        # a file whose own write/close failed: its content is not claimed
        for p in list(fi):
            if fi.get(p) != fm.get(p) and p in fm and io["exc"] == "OSError":
                # tolerated only for the file being written when the fault fired
                if fm[p] == "" or fi[p] == "":
                    fi[p] = fm[p] = "?"
    if fi != fm:
        return False
    if mo["exc"] == "load":
        return io["exc"] in ("MSDParserError", "ValueError", "AssertionError")
    if mo["exc"] == "serialize":
        return io["exc"] in ("KeyError", "AttributeError", "TypeError")
    return io["exc"] == mo["exc"]


def oracle(c, o):
    if "__harness_exc__" in o:
        return "harness/library raised %s (%s)" % (o["__harness_exc__"], o.get("msg"))
    files = c05.canon_files(o["files"])
    inp, out, bak = c05.paths(c)
    before = {inp: c["data"]}
    stale = bool(c.get("stale_bak") and bak and bak != inp and bak != out)
    if stale:
        before[bak] = c05.STALE.hex()
    if "pre" in o and c05.canon_files(o["pre"]["files"]) != before:
        return "an earlier attempt that did not save (%s) left the directory changed: %s" % (o["pre"]["exc"], sorted(c05.canon_files(o["pre"]["files"])))
    if c["backup"] in ("clash_input", "clash_output"):
        # a backup name equal to the input or output name: refused before anything is written, whatever else would have happened
        if o["exc"] != "ValueError":
            return "backup name equals the %s name but the call ended with %s instead of ValueError" % ("input" if c["backup"] == "clash_input" else "output", o["exc"])
        if files != before:
            return "backup name clash: refused, yet the file system changed (%s)" % sorted(files)
        return None
    if o["body_exc"]:
        if files != before:
            return "the body raised %s but the file system changed: %s" % (o["body_exc"], sorted(files))
        if o["body_exc"] == "CancelMutation":
            return None if o["exc"] is None else "CancelMutation was not swallowed (%s)" % o["exc"]
        if o["exc"] == o["body_exc"] and o.get("same_object") is False:
            return "the %s that escaped is not the object the body raised (it must propagate unchanged)" % o["exc"]
        return None if o["exc"] == o["body_exc"] else "%s raised in the body, %s escaped" % (o["body_exc"], o["exc"])
    if o["exc"] in ("KeyError", "AttributeError", "TypeError", "UnicodeEncodeError"):
        # could not be serialised / encoded: nothing may have been touched
        if files.get(inp) != c["data"]:
            return "saving failed with %s and the input file no longer holds its original bytes" % o["exc"]
    if o["exc"] == "OSError" and c["fault"] and c["fault"][0] == "open":
        if files.get(inp) != c["data"] and not (c["fault"][1] == "out" and not c["output"] and False):
            return "a file could not be opened for writing and the input file no longer holds its original bytes"
    if o["exc"] in ("OSError", "FileNotFoundError", "PermissionError", "IsADirectoryError", "NotADirectoryError", "FileExistsError",
                    "ResourceNotFound", "FileExpected", "DirectoryExpected", "ResourceError", "FSError") and not o.get("fault_fired"):
        return "mutate raised %s (a file-system error) although no fault was injected on the file system it was given" % o["exc"]
    if o["exc"] == "OSError" and o.get("fault_fired") and bak and c["fault"] and c["fault"][1] == "out" and bak not in files:
        return "the output step failed, a backup had been requested, and no backup exists on the file system mutate was given"
    # a file that was already at the backup path counts as "the backup" only where this call must have replaced it:
    # a normal end, or a failure of the output step (which comes after the backup)
    must_be_written = o["exc"] is None and not o["body_exc"] or (o["exc"] == "OSError" and c["fault"] and c["fault"][1] == "out")
    if bak and bak in files and not (c["fault"] and c["fault"][1] == "bak") and o["entry"] is not None and (not stale or must_be_written):
        if o.get("bak_parses_to") != ["ok", o["entry"]]:
            return "the backup was written (the call ended with %s), but it does not parse to the original simfile" % o["exc"]
    if o["exc"] == "OSError" and o.get("fault_fired") and bak is not None and (out is None or out == inp) and c["fault"] and c["fault"][1] == "out" and c["fault"][0] in ("write", "close"):
        # the input is being overwritten when the fault hits: the original must survive in the backup
        if o.get("bak_parses_to") != ["ok", o["entry"]]:
            return "the original is lost: output write failed and the backup is not complete"
    return None


def nontrivial(c, o):
    return isinstance(o, dict) and (o.get("exc") is not None or o.get("body_exc") is not None)


def describe(c):
    kind = "fault:" + "/".join(c["fault"]) if c.get("fault") else next(("raise:" + op[1] for op in c["ops"] if op[0] == "raise"), "unser" if unserialisable(c) else "other")
    return "%s/%s/%s%s" % (c["fmt"], c["fs"], kind, "/retry" if c.get("before") else "")


def shrink(c):
    if c.get("before"):
        yield {k: v for k, v in c.items() if k != "before"}
    for i in range(len(c["ops"])):
        yield dict(c, ops=c["ops"][:i] + c["ops"][i + 1:])
