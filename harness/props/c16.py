"""C16 - SM to SSC conversion keeps every property, chart, timing and note."""
import copy
from decimal import Decimal
from fractions import Fraction

from ..driver import SKIP
from ..lib import S
from .. import gen_simfile as G

ID = "C16"
N_QUICK, N_THOROUGH = 1200, 60000
RULE = ("SM sources built as for C01 carrying OFFSET, BPMS, STOPS (DELAYS/WARPS optional, ANIMATIONS alias, SSC-only keys, negative BPM/stop values), 0..4 "
        "charts; with/without caller templates (blank-derived with extra properties and with charts; short templates holding only a few keys, with, without or not starting with a version tag; chart template, blank-derived or short, ending with its note data); the SM corpus file; compares "
        "the converted simfile or the raised error (key order included); oracle: properties kept, template fill and nothing else (key sets), charts, TimingData equal (simfile and per chart), reload, "
        "inputs unmodified and no shared mutable object (mutate the result, re-snapshot the inputs); non-trivial = at least one chart")
assumptions = ["a template supplies no non-empty chart timing value the source lacks (true of the blank templates; caller templates in the generator respect it)"]
extra_trusted = []

TIMING = ["0.000=120.000", "0.000=120.000,\n4.000=180.5,\n16.000=90", "0.000=60"]
STOPS = ["", "4.000=0.500", "1.000=0.250,\n9.500=1"]


TEMPLATE_KEYS = ["TITLE", "SUBTITLE", "ARTIST", "TITLETRANSLIT", "SUBTITLETRANSLIT", "ARTISTTRANSLIT", "GENRE", "ORIGIN", "CREDIT", "BANNER",
                 "BACKGROUND", "PREVIEWVID", "JACKET", "CDIMAGE", "DISCIMAGE", "LYRICSPATH", "CDTITLE", "MUSIC", "SAMPLESTART", "SAMPLELENGTH",
                 "SELECTABLE", "TIMESIGNATURES", "TICKCOUNTS", "COMBOS", "SPEEDS", "SCROLLS", "FAKES", "LABELS", "BGCHANGES", "KEYSOUNDS", "ATTACKS",
                 "FGCHANGES", "DISPLAYBPM", "INSTRUMENTTRACK", "ANIMATIONS"]


def rand_sm(rng, negative=False):
    props = [["TITLE", G.rand_value(rng)], ["OFFSET", rng.choice(["0.000", "-0.125", "1.5"])], ["BPMS", rng.choice(TIMING)], ["STOPS", rng.choice(STOPS)]]
    if negative:
        which = rng.choice(["bpm", "stop", "both"])
        if which in ("bpm", "both"):
            props[2][1] = rng.choice(["0.000=120.000,\n4.000=-60.000", "0.000=120.000,\n4.000=-60.000", "0=120,8=-240,8=240", "0=120,8.000=-240,8.004=240,12=90", "0=-120"])
        if which in ("stop", "both"):
            props[3][1] = rng.choice(["2.000=-0.500", "2.000=-0.500", "4=-0.5,4=0.25", "1=0.25,\n4.000=-0.5,\n4.001=0.25"])      # a negative value followed by another row on the same beat / tick
    for key, vals in (("DELAYS", ["", "3.000=0.300"]), ("WARPS", ["", "5.000=1.000"]), ("ANIMATIONS", ["a"]), ("BGCHANGES", ["b"]), ("ORIGIN", ["x"]),
                      ("LABELS", ["0=y"]), ("ATTACKS", ["a:b", None, ""]), ("DISPLAYBPM", ["1:2", "*", None]), ("ARTIST", ["猫"]), ("EXTRA KEY", ["v", None]),
                      ("SUBTITLE", [None, ""]), ("VERSION", ["0.70", "0.81", "0.5", ""])):       # None: a key-only property (#ATTACKS;), which an SM file may hold for any key
        if rng.random() < 0.3:
            props.append([key, rng.choice(vals)])
    # keys the blank SSC template also has (so that template and source compete), with blank, whitespace-only and ordinary values
    have = {k for k, _ in props}
    for key in TEMPLATE_KEYS:
        if key not in have and key not in ("BPMS", "STOPS", "OFFSET", "DELAYS", "WARPS", "VERSION") and rng.random() < 0.12:
            props.append([key, rng.choice(["", "", " ", "\n", "0.000=1", "x", "0.000=4=4"])])
    if rng.random() < 0.5:
        rng.shuffle(props)
    charts = []
    for _ in range(rng.choice([0, 1, 1, 2, 4])):
        charts.append([G.stripped(rng) for _ in range(5)] + [rng.choice(["0000\n0000", "1000\n0100\n,\n0010", "", "0110\n2003\n,\nM000\n0000\n3000\n0000", "10\n01"]), []])
    return props, charts


def rand_templates(rng):
    r = rng.random()
    ts = tc = None
    if r < 0.35:
        ts = {"props": "blank", "extra": rng.choice([[["CREDIT", "tmpl"], ["X", "y"], ["TITLE", "from template"]], [["ATTACKS", None], ["GENRE", None], ["X", "y"]]])[: rng.randrange(0, 4)],
              "charts": rng.choice([0, 0, 1, 2])}
    elif r < 0.42:
        ts = {"props": "empty", "extra": [], "charts": rng.choice([0, 1])}
    elif r < 0.52:
        ts = {"props": "partial", "extra": [["CREDIT", "tmpl"], ["X", "y"]][: rng.randrange(0, 3)], "charts": rng.choice([0, 0, 1])}
        ts["props"] = rng.choice(["partial", "partial", "unversioned", "lateversion"])     # a template need not start with a version tag, nor carry one
    if rng.random() < 0.3:
        pool = [["CHARTNAME", "t"], ["CREDIT", "c"], ["DISPLAYBPM", "90.000:180.000"], ["ATTACKS", "TIME=1.5:LEN=2:MODS=drunk"], ["DISPLAYBPM", "*"], ["ATTACKS", None],
                ["CHARTSTYLE", None], ["OFFSET", "0.250"], ["MUSIC", "chart.ogg"], ["RADARVALUES", "1,2,3"]]     # OFFSET alone does not make a chart its own timing source
        tc = {"extra": rng.sample(pool, rng.randrange(0, 4)), "empty": rng.random() < 0.2, "notes2": rng.random() < 0.4, "partial": rng.random() < 0.25}
    return ts, tc


def corpus():
    out = [{"src": "corpus", "ts": None, "tc": None}]
    out.append({"src": [[["OFFSET", "0"], ["BPMS", "0.000=120.000"], ["STOPS", "2.000=-0.500"]], []], "ts": None, "tc": None})          # negative stop only
    out.append({"src": [[["OFFSET", "0"], ["BPMS", "0.000=120.000"], ["STOPS", ""], ["LABELS", ""], ["TICKCOUNTS", " "], ["TIMESIGNATURES", ""], ["TITLE", ""]], []],
                "ts": None, "tc": None})                                                                                              # blank values where the template has defaults
    out.append({"src": [[["OFFSET", "0"], ["BPMS", "0.000=120.000"], ["STOPS", ""]], [["a", "b", "c", "1", "0", "0000", []]]],
                "ts": {"props": "blank", "extra": [], "charts": 2}, "tc": None})                                                     # template with charts
    out.append({"src": [[["OFFSET", "0"], ["BPMS", "0.000=120.000"], ["STOPS", ""]], [["dance-single", "b", "Easy", "1", "0,0", "0000\n1000", []]]],
                "ts": None, "tc": {"extra": [], "empty": False, "notes2": False, "partial": True}})        # F12: chart template lacking copied fields; NOTES must stay last
    out.append({"src": [[["OFFSET", "0"], ["BPMS", "0.000=120.000"], ["STOPS", ""]], [["dance-single", "b", "Easy", "1", "0,0", "0000", []]]],
                "ts": {"props": "partial", "extra": [], "charts": 1}, "tc": {"extra": [["CREDIT", "c"]], "empty": False, "notes2": False, "partial": True}})
    for kind in ("unversioned", "lateversion"):
        for ver in ([], [["VERSION", "0.81"]]):
            out.append({"src": [[["OFFSET", "0"], ["BPMS", "0.000=120.000"], ["STOPS", ""]] + ver, [["dance-single", "b", "Easy", "1", "0,0", "0000", []]]],
                        "ts": {"props": kind, "extra": [], "charts": 0}, "tc": None})
    return out


def gen(rng, i, tier):
    props, charts = rand_sm(rng, negative=rng.random() < 0.12)
    ts, tc = rand_templates(rng)
    return {"src": [props, charts], "ts": ts, "tc": tc}


def build(c):
    from simfile.sm import SMSimfile, SMChart
    from simfile.ssc import SSCSimfile, SSCChart
    if c["src"] == "corpus":
        sm = SMSimfile(string=max([t for f, t in G.corpus_files() if f.lower().endswith(".sm")], key=len))
    else:
        sm = SMSimfile(string="")
        for kk, vv in c["src"][0]:
            sm[kk] = vv
        for ch in c["src"][1]:
            sm.charts.append(SMChart.from_msd(ch[:6]))
    ts = tc = None
    if c["ts"]:
        ts = (SSCSimfile.blank() if c["ts"]["props"] == "blank" else
              SSCSimfile(string="#VERSION:0.83;#TITLE:from a short template;#SELECTABLE:NO;") if c["ts"]["props"] == "partial" else
              SSCSimfile(string="#TITLE:from a template without a version tag;#SELECTABLE:NO;") if c["ts"]["props"] == "unversioned" else
              SSCSimfile(string="#TITLE:from a template;#VERSION:0.83;#SELECTABLE:NO;") if c["ts"]["props"] == "lateversion" else SSCSimfile(string=""))
        for kk, vv in c["ts"]["extra"]:
            ts[kk] = vv
        for j in range(c["ts"]["charts"]):
            ch = SSCChart.blank(); ch.description = "template chart %d" % j
            ts.charts.append(ch)
    if c["tc"]:
        tc = SSCChart() if (c["tc"]["empty"] or c["tc"].get("partial")) else SSCChart.blank()
        if c["tc"].get("partial"):           # a short template: only what differs from blank, ending with its note data
            tc["CHARTSTYLE"] = "from a short template"; tc["NOTES"] = ""
        for kk, vv in c["tc"]["extra"]:
            tc[kk] = vv
        if c["tc"].get("notes2") and "NOTES" in tc:
            nv = tc["NOTES"]; del tc["NOTES"]; tc["NOTES2"] = "0001\n1000" if not nv else nv      # the alias spelling of the template's note data
        for nk in ("NOTES", "NOTES2"):
            if nk in tc:
                tc.move_to_end(nk)            # the domain: template charts end with their note data
    return sm, ts, tc


def chart_props(ch):
    from collections import OrderedDict
    return [[k, v] for k, v in OrderedDict.items(ch)]


def conv_obs(sf):
    return [G.props_obs(sf), [chart_props(c) for c in sf.charts]]


def snapshot(x):
    if x is None:
        return None
    if hasattr(x, "charts"):
        try:
            return [G.props_obs(x), [chart_props(c) + [getattr(c, "extradata", None)] for c in x.charts]]
        except AttributeError:
            return [G.props_obs(x), []]
    return chart_props(x)


def td_obs(sf, ch=None):
    from simfile.timing import TimingData
    t = TimingData(sf, ch)
    f = lambda l: [[str(Fraction(b.beat)), str(Fraction(b.value))] for b in l]
    return [f(t.bpms), f(t.stops), f(t.delays), f(t.warps), str(Fraction(t.offset))]


def impl(c):
    from simfile.convert import sm_to_ssc
    from simfile.ssc import SSCSimfile
    sm, ts, tc = build(c)
    before = [snapshot(sm), snapshot(ts), snapshot(tc)]
    kw = {}
    if ts is not None:
        kw["simfile_template"] = ts
    if tc is not None:
        kw["chart_template"] = tc
    try:
        out = sm_to_ssc(sm, **kw)
    except NotImplementedError:
        return {"res": ["err", "notimpl"], "unmodified": [snapshot(sm), snapshot(ts), snapshot(tc)] == before}
    o = {"res": ["ok", conv_obs(out)]}
    o["unmodified"] = [snapshot(sm), snapshot(ts), snapshot(tc)] == before
    o["timing_equal"] = G.guarded(lambda: td_obs(out) == td_obs(sm))[1]
    ntmpl = len(ts.charts) if ts is not None and len(ts) else 0
    o["chart_timing_equal"] = G.guarded(lambda: all(td_obs(out, oc) == td_obs(sm, sc) for oc, sc in zip(out.charts[ntmpl:], sm.charts)))[1]
    def notes_obs(ch):
        from simfile.notes import NoteData
        try:
            return ["ok", [G.note_obs(n) for n in NoteData(ch)], NoteData(ch).columns]
        except Exception as e:
            return ["err", type(e).__name__]
    o["notes_equal"] = G.guarded(lambda: all(notes_obs(oc) == notes_obs(sc) for oc, sc in zip(out.charts[ntmpl:], sm.charts)))[1]
    o["reload_equal"] = G.guarded(lambda: SSCSimfile(string=str(out)) == out and conv_obs(SSCSimfile(string=str(out))) == conv_obs(out))[1]
    # no shared mutable object: identity, then mutate the result and look at the inputs again
    shared = False
    for x in out.charts:
        if any(x is y for y in (ts.charts if ts is not None else [])) or any(x is y for y in sm.charts) or x is tc:
            shared = True
    if out is ts or (ts is not None and out.charts is ts.charts):
        shared = True
    out["TITLE"] = "mutated"
    for x in out.charts:
        x["DESCRIPTION"] = "mutated"
        x["NEWKEY"] = "1"
    out.charts.append(out.charts[0] if len(out.charts) else None)
    o["no_sharing"] = (not shared) and [snapshot(sm), snapshot(ts), snapshot(tc)] == before
    return o


def src_obs(c):
    sm, ts, tc = build(c)
    sf = G.props_obs(sm)
    charts = [[[k, v] for k, v in zip(["STEPSTYPE", "DESCRIPTION", "DIFFICULTY", "METER", "RADARVALUES", "NOTES"], G.sm_chart_obs(ch)[0])] for ch in sm.charts]
    tso = None if ts is None else [G.props_obs(ts), [chart_props(x) for x in ts.charts]]
    tco = None if tc is None else chart_props(tc)
    return sf, charts, tso, tco


def requests(c):
    sf, charts, tso, tco = src_obs(c)
    return [[160, G.enc_props(sf), [G.enc_props(x) for x in charts],
             [] if tso is None else [[G.enc_props(tso[0]), [G.enc_props(x) for x in tso[1]]]],
             [] if tco is None else [G.enc_props(tco)]]]


def un_cres(a):
    if a[0] == 0:
        return ["ok", [G.dec_props(a[1][0]), [G.dec_props(x) for x in a[1][1]]]]
    return ["err", {1: "notimpl", 2: "invalid:" + (S(a[1]) if len(a) > 1 else ""), 3: "key", 4: "unmodelled"}[a[0]]]


def model(c, ans):
    r = un_cres(ans[0][1])
    if r == ["err", "unmodelled"]:
        return SKIP
    if r[0] == "err":
        return {"res": r, "unmodified": True}
    return {"res": r, "unmodified": True, "timing_equal": True, "chart_timing_equal": True, "notes_equal": True, "reload_equal": True, "no_sharing": True}


def oracle(c, o):
    if "__harness_exc__" in o:
        return "library raised %s (%s)" % (o["__harness_exc__"], o.get("msg"))
    sf, charts, tso, tco = src_obs(c)
    neg = False
    from decimal import Decimal
    d = dict((k, v) for k, v in sf)
    try:      # read independently of the library's own parser
        neg = any(Decimal(row.strip().split("=")[1].strip()) < 0 for key in ("BPMS", "STOPS") for row in (d.get(key) or "").split(",") if (d.get(key) or "") != "")
    except Exception:
        return None
    if "STOPS" not in d and "FREEZES" in d:
        return None                                  # known finding K3, probed separately
    if neg:
        return None if o["res"] == ["err", "notimpl"] else "negative BPM/stop was converted instead of refused: %s" % str(o["res"])[:200]
    if o["res"][0] != "ok":
        return "conversion failed: %s" % o["res"]
    props, out_charts = o["res"][1]
    od = dict((k, v) for k, v in props)
    for k, v in sf:
        if od.get(k, "__missing__") != v:
            return "property %s: source has %r, result has %r" % (k, v, od.get(k, "__missing__"))
    tmpl_props = tso[0] if (tso and tso[0]) else None
    if tmpl_props is None:
        from simfile.ssc import SSCSimfile
        tmpl_props = G.props_obs(SSCSimfile.blank())
    for k, v in tmpl_props:
        if k not in d and od.get(k, "__missing__") != v:
            return "property %s should come from the template (%r), result has %r" % (k, v, od.get(k, "__missing__"))
    want_keys = [k for k, v in tmpl_props] + [k for k, v in sf if k not in dict(tmpl_props)]
    if [k for k, v in props] != want_keys:
        return "property order %s, expected template order then new keys %s" % ([k for k, v in props][:12], want_keys[:12])
    ntmpl = len(tso[1]) if (tso and tso[0]) else 0
    if len(out_charts) != ntmpl + len(charts):
        return "%d charts in the result, expected %d template + %d source" % (len(out_charts), ntmpl, len(charts))
    if tco:
        tmpl_chart_keys = [k for k, v in tco]
    else:
        from simfile.ssc import SSCChart
        tmpl_chart_keys = list(SSCChart.blank().keys())
    for oc, sc in zip(out_charts[ntmpl:], charts):
        ocd = dict((k, v) for k, v in oc)
        for k, v in sc:
            if ocd.get(k) != v:
                return "chart field %s: source %r, result %r" % (k, v, ocd.get(k))
        want_ck = tmpl_chart_keys + [k for k, v in sc if k not in tmpl_chart_keys]
        if sorted(k for k, v in oc) != sorted(want_ck):
            return "chart keys %s, expected the template's keys and the six source fields %s" % ([k for k, v in oc], want_ck)
    for key in ("unmodified", "timing_equal", "chart_timing_equal", "notes_equal", "reload_equal", "no_sharing"):
        if o.get(key) is not True:
            return "%s is %s" % (key, o.get(key))
    return None


def nontrivial(c, o):
    return c["src"] == "corpus" or len(c["src"][1]) >= 1


def describe(c):
    if c["src"] == "corpus":
        return "corpus"
    return "charts%d/ts%s/tc%s" % (len(c["src"][1]), "n" if not c["ts"] else c["ts"]["props"][0] + str(c["ts"]["charts"]), "y" if c["tc"] else "n")


def shrink(c):
    if c["src"] == "corpus":
        return
    props, charts = c["src"]
    for i in range(len(props)):
        if props[i][0] not in ("BPMS",):
            yield dict(c, src=[props[:i] + props[i + 1:], charts])
    for i in range(len(charts)):
        yield dict(c, src=[props, charts[:i] + charts[i + 1:]])
    if c["ts"]:
        yield dict(c, ts=None)
    if c["tc"]:
        yield dict(c, tc=None)


def known_probes():
    def k3():
        from simfile.sm import SMSimfile
        from simfile.convert import sm_to_ssc
        from simfile.timing import TimingData
        sm = SMSimfile(string="#OFFSET:0;#BPMS:0=120;#FREEZES:4=1;")
        out = sm_to_ssc(sm)
        return len(TimingData(out).stops) != len(TimingData(sm).stops)
    return [("K3", "SM source spelling its stops FREEZES converts to an SSC simfile whose STOPS (from the template) is empty: timing differs", k3)]
