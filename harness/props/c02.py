"""C02 - SSC simfile: serialize then parse gives back the same simfile."""
from ..driver import SKIP
from ..lib import S
from .. import gen_simfile as G

ID = "C02"
N_QUICK, N_THOROUGH = 1500, 80000
RULE = ("edit scripts applied to SSCSimfile.blank(), an empty simfile and the corpus SSC files: simfile keys, 0..4 charts whose keys come in any "
        "order with NOTES or NOTES2 at any position, values incl. empty, interned one-character strings and the same object stored under two keys, "
        "None for key-only; compares str(sf), strict reload (note data moved last), second serialisation, auto-detection, SSCChart.from_str; "
        "non-trivial = at least one chart")
assumptions = ["the model's input object is read from the implementation's object after the edits", "msdparser chunking transparent (texts < 4096 except corpus)"]
extra_trusted = ["msdparser 2.0.0 is modelled (Model/Msd.v), not verified"]


def corpus():
    n = len([1 for f, t in G.corpus_files() if f.lower().endswith(".ssc")])
    out = [{"start": "blank", "ops": []}, {"start": "empty", "ops": []}] + [{"start": "corpus%d" % i, "ops": []} for i in range(n)]
    # identity-aliased values (F2 regression): empty notes, interned one-char strings, same object under two keys
    out.append({"start": "empty", "ops": [["addchart", [["CHARTNAME", ""], ["NOTES", ""], ["CREDIT", ""]]]]})
    out.append({"start": "empty", "ops": [["addchart", [["METER", "1"], ["NOTES", "1"], ["X", "1"]]]]})
    out.append({"start": "empty", "ops": [["addchart", [["NOTES2", "a"], ["DISPLAYBPM", "60:240"], ["ATTACKS", "a:b:c"]]]]})
    out.append({"start": "blank", "ops": [["addblank"], ["cset", 0, "NOTES", ""]]})
    out.append({"start": "empty", "ops": [["set", "VERSION", "0.83"], ["addchart", [["NOTES", None], ["X", None]]]]})
    return out


def rand_chart(rng):
    keys = rng.sample(G.CHART_KEYS + ["X", "Y Z", "A:B"], rng.randrange(0, 7))
    items = [[k, None if rng.random() < 0.06 else G.rand_value(rng)] for k in keys if G.is_upper(k)]
    nk = rng.choice(["NOTES", "NOTES", "NOTES2"])
    items.insert(rng.randrange(len(items) + 1), [nk, G.rand_notes(rng, False)])
    if rng.random() < 0.2 and items:
        # the same string object under two keys
        items.append(["DUP", items[rng.randrange(len(items))][1]])
    return items


def gen(rng, i, tier):
    ops = []
    for _ in range(rng.choice([0, 1, 2, 4, 8, 20])):
        r = rng.random()
        if r < 0.3:
            ops.append(["set", G.rand_key(rng, G.SSC_KEYS), None if rng.random() < 0.08 else G.rand_value(rng)])
        elif r < 0.35:
            ops.append(["ser"])
        elif r < 0.42:
            ops.append(["del", G.rand_key(rng, G.SSC_KEYS)])
        elif r < 0.65:
            ops.append(["addchart", rand_chart(rng)])
        elif r < 0.7:
            ops.append(["addblank"])
        elif r < 0.75:
            ops.append(["delchart", rng.randrange(4)])
        elif r < 0.8:
            ops.append(["reverse"])
        elif r < 0.92:
            ops.append(["cset", rng.randrange(4), rng.choice(G.CHART_KEYS + ["NOTES"]), G.rand_value(rng)])
        else:
            ops.append(["cattr", rng.randrange(4), rng.choice(["notes", "meter", "chartname", "displaybpm"]), G.rand_value(rng)])
        # the mapping's other mutators (they bypass __setitem__/__delitem__), with a serialization in front now and then
        if rng.random() < 0.12:
            if rng.random() < 0.5:
                ops.append(["ser"])
            ops.append(rng.choice([["pop", G.rand_key(rng, G.SSC_KEYS)], ["popitem"], ["move", G.rand_key(rng, G.SSC_KEYS), rng.random() < 0.5],
                                   ["cpop", rng.randrange(4), rng.choice(G.CHART_KEYS)], ["cpopitem", rng.randrange(4)],
                                   ["cmove", rng.randrange(4), rng.choice(G.CHART_KEYS), rng.random() < 0.5], ["cserial", rng.randrange(4)]]))
    start = rng.choice(["blank"] * 15 + ["empty"] * 14 + ["corpus0", "corpus1"])
    if start == "empty" and rng.random() < 0.6:
        ops.insert(0, ["set", "VERSION", "0.83"])
    return {"start": start, "ops": ops}


def mk_chart(items):
    from simfile.ssc import SSCChart
    c = SSCChart()
    for k, v in items:
        c[k] = v
    return c


def build(c):
    from simfile.ssc import SSCSimfile, SSCChart
    if c["start"] == "blank":
        sf = SSCSimfile.blank()
    elif c["start"] == "empty":
        sf = SSCSimfile(string="")
    else:
        files = [t for f, t in G.corpus_files() if f.lower().endswith(".ssc")]
        sf = SSCSimfile(string=files[int(c["start"][6:]) % len(files)])
    for op in c["ops"]:
        try:
            if op[0] == "ser":
                str(sf)
            elif op[0] == "set":
                sf[op[1]] = op[2]
            elif op[0] == "del":
                del sf[op[1]]
            elif op[0] == "addchart":
                sf.charts.append(mk_chart(op[1]))
            elif op[0] == "addblank":
                sf.charts.append(SSCChart.blank())
            elif op[0] == "delchart":
                del sf.charts[op[1]]
            elif op[0] == "reverse":
                sf.charts.reverse()
            elif op[0] == "pop":
                sf.pop(op[1], None)
            elif op[0] == "popitem":
                if len(sf) > 1:
                    sf.popitem()
            elif op[0] == "move":
                sf.move_to_end(op[1], last=op[2])
            elif op[0] == "cpop":
                sf.charts[op[1]].pop(op[2], None)
            elif op[0] == "cpopitem":
                ch = sf.charts[op[1]]
                if len(ch) > 1 and next(reversed(ch)) not in ("NOTES", "NOTES2"):
                    ch.popitem()
            elif op[0] == "cmove":
                sf.charts[op[1]].move_to_end(op[2], last=op[3])
            elif op[0] == "cserial":
                str(sf.charts[op[1]])
            elif op[0] == "cset":
                sf.charts[op[1]][op[2]] = op[3]
            elif op[0] == "cattr":
                setattr(sf.charts[op[1]], op[2], op[3])
        except (KeyError, IndexError):
            pass
    return sf


def notes_key(ch):
    ks = [k for k, v in ch]
    return "NOTES2" if "NOTES" not in ks and "NOTES2" in ks else "NOTES"


def notes_last(o):
    out = []
    for ch in o[2]:
        nk = notes_key(ch)
        out.append([kv for kv in ch if kv[0] != nk] + [kv for kv in ch if kv[0] == nk])
    return [o[0], o[1], out]


def in_domain(o):
    for k, v in o[1]:
        if "#" in k or k != k.upper() or k == "NOTEDATA":
            return False
    ok, l = G.safe_props(False, o[1])
    if not ok:
        return False
    l = True
    for ch in o[2]:
        ks = [k for k, v in ch]
        if ("NOTES" in ks) == ("NOTES2" in ks):
            return False
        if any("#" in k or k != k.upper() or k == "NOTEDATA" for k in ks):
            return False
        nk = notes_key(ch)
        ok, l = G.safe_props(True, ch, skip=nk)
        if not ok:
            return False
        nv = dict((k, v) for k, v in ch)[nk]
        ok, l = G.safe_param(True, [nk] if nv is None else [nk, nv])
        if not ok:
            return False
        l = True
    return True


_cache = {}


def key(c):
    import json
    return json.dumps(c, sort_keys=True)


def final_obs(c):
    k = key(c)
    if k not in _cache:
        if len(_cache) > 20000:
            _cache.clear()
        _cache[k] = G.sf_obs(build(c))
    return _cache[k]


def impl(c):
    import simfile
    from simfile.ssc import SSCSimfile, SSCChart
    sf = build(c)
    o = G.sf_obs(sf)
    _cache[key(c)] = o
    text = G.guarded(lambda: str(sf))
    if text[0] != "ok":
        return {"sf": o, "text": text}
    t = text[1]
    re = G.guarded(lambda: G.sf_obs(SSCSimfile(string=t)))
    det = G.guarded(lambda: G.sf_obs(simfile.loads(t)))
    text2 = G.guarded(lambda: str(SSCSimfile(string=t)))
    chart_rt = []
    for ch in sf.charts[:3]:
        chart_rt.append(G.guarded(lambda: G.props_obs(SSCChart.from_str(str(ch)))))
    return {"sf": o, "text": text, "reload": re, "detect": det, "text2": text2, "chart_from_str": chart_rt}


def requests(c):
    o = final_obs(c)
    reqs = [[25, G.enc_ssc(o)]]
    for ch in o[2][:3]:
        reqs.append([27, G.enc_props(ch)])
    return reqs


def model(c, ans):
    o = final_obs(c)
    a = ans[0][1]
    if a == []:
        return {"sf": o, "text": ["err", "key"]}
    a = a[0]
    re = G.dec_lres(a[1], G.dec_ssc)
    det = G.dec_lres(a[2], G.dec_simfile)
    t2 = ["ok", S(a[3][0])] if a[3] else ["err", re[1] if re[0] == "err" else "key"]
    # chart_from_str of the model's chart text = note data last (C02_chart_from_str); compared through the simfile reload above
    chart_rt = []
    for x in ans[1:]:
        x = x[1]
        chart_rt.append(["err", "key"] if x == [] else G.dec_lres(x[0], G.dec_props))
    return {"sf": o, "text": ["ok", S(a[0])], "reload": re, "detect": det, "text2": t2, "chart_from_str": chart_rt}


def oracle(c, o):
    if "__harness_exc__" in o:
        return "library raised %s (%s)" % (o["__harness_exc__"], o.get("msg"))
    if not in_domain(o["sf"]):
        return None
    if o["text"][0] != "ok":
        return "serialisation raised %s" % o["text"][1]
    want = notes_last(o["sf"])
    if o["reload"] != ["ok", want]:
        return "strict reload gives %s..., the simfile (note data moved last) is %s..." % (str(o["reload"])[:300], str(want)[:300])
    if o["text2"] != o["text"]:
        return "serialising the reloaded simfile does not reproduce the text"
    first = o["sf"][1][0][0] if o["sf"][1] else None
    if first == "VERSION" and o["detect"] != ["ok", want]:
        return "auto-detection does not load it as the same SSC simfile"
    for got, ch in zip(o["chart_from_str"], want[2]):
        if got != ["ok", ch]:
            return "SSCChart.from_str(str(chart)) = %s, chart is %s" % (str(got)[:200], str(ch)[:200])
    from msdparser import parse_msd
    ps = list(parse_msd(string=o["text"][1]))
    # every chart: NOTEDATA first, note data last
    idx = [i for i, p in enumerate(ps) if p.key == "NOTEDATA"]
    if len(idx) != len(want[2]):
        return "%d NOTEDATA parameters for %d charts" % (len(idx), len(want[2]))
    for n, (i, ch) in enumerate(zip(idx, want[2])):
        end = idx[n + 1] if n + 1 < len(idx) else len(ps)
        seg = ps[i + 1:end]
        if [p.key for p in seg] != [k for k, v in ch]:
            return "chart %d is written with keys %s, expected %s" % (n, [p.key for p in seg], [k for k, v in ch])
        for p, (k, v) in zip(seg, ch):
            if k in ("ATTACKS", "DISPLAYBPM") and v is not None and list(p.components[1:]) != v.split(":"):
                return "chart-level %s is not written as colon-delimited components" % k
    return None


def nontrivial(c, o):
    return isinstance(o, dict) and "sf" in o and bool(o["sf"][2])


def describe(c):
    return "%s/ops%d" % (c["start"][:6], 10 * (len(c["ops"]) // 10))


def shrink(c):
    ops = c["ops"]
    if c["start"] != "empty":
        yield dict(c, start="empty")
    for i in range(len(ops)):
        yield dict(c, ops=ops[:i] + ops[i + 1:])
    for i, op in enumerate(ops):
        if op[0] == "addchart" and len(op[1]) > 1:
            for j in range(len(op[1])):
                yield dict(c, ops=ops[:i] + [["addchart", op[1][:j] + op[1][j + 1:]]] + ops[i + 1:])


def known_probes():
    from . import c01
    return c01.known_probes()
