"""C09 - grouping and counting notes follow the documented rules for every stream."""
import itertools
from fractions import Fraction

from ..driver import SKIP
from ..lib import S
from .. import gen_notes as G

ID = "C09"
RULE = ("single-player position-sorted streams, well-formed or not; exhaustive: all streams on 2 columns x 2 rows (quick) / 3 rows (thorough) x 5 cell kinds "
        "x 9 orphan policy pairs x join on (+ join off, 3 same-beat modes); random: 1..6 columns, every subset of note types, 3 modes, join on/off, 3x3 "
        "policies, same_beat_minimum 1..4; every corpus chart; compares groups / raised orphan note / all count_* functions; non-trivial = >= 2 included notes")
assumptions = ["columns are non-negative (the model keys held columns by Z.to_nat column)", "beats are reduced fractions"]
extra_trusted = []

KINDS = ["0", "1", "2", "3", "M"]
ALLTYPES = "1234AFKLM"
DEFAULT = "124L"
_enum = {}


def grid_stream(cells, cols, rows):
    out = []
    for r in range(rows):
        for c in range(cols):
            k = cells[r * cols + c]
            if k != "0":
                b = Fraction(r, 1)
                out.append([b.numerator, b.denominator, c, k, 0, None])
    return out


def enumeration(rows):
    if rows not in _enum:
        out = []
        cols = 2
        for cells in itertools.product(KINDS, repeat=cols * rows):
            ns = grid_stream(cells, cols, rows)
            for ph in (1, 2, 3):
                for pt in (1, 2, 3):
                    out.append({"ns": ns, "types": ALLTYPES, "mode": 1, "join": True, "ph": ph, "pt": pt, "min": 1})
            for mode in (1, 2, 3):
                out.append({"ns": ns, "types": DEFAULT, "mode": mode, "join": False, "ph": 1, "pt": 1, "min": 2})
        _enum[rows] = out
    return _enum[rows]


def corpus():
    out = []
    for i in range(len(G.corpus_charts())):
        for mode in (1, 3):
            out.append({"corpus": i, "types": ALLTYPES, "mode": mode, "join": True, "ph": 2, "pt": 2, "min": 1})
        out.append({"corpus": i, "types": DEFAULT, "mode": 2, "join": False, "ph": 1, "pt": 1, "min": 2})
    # seeded shapes: hold open in c0; tap, head, tail in c1; tail c0
    ns = [[0, 1, 0, "2", 0, None], [1, 1, 1, "1", 0, None], [2, 1, 1, "2", 0, None], [3, 1, 1, "3", 0, None], [4, 1, 0, "3", 0, None]]
    out.append({"ns": ns, "types": ALLTYPES, "mode": 1, "join": True, "ph": 1, "pt": 1, "min": 1})
    return out


def gen(rng, i, tier):
    en = enumeration(3 if tier == "thorough" else 2)
    if i < len(en):
        return en[i]
    cols = rng.choice([1, 2, 3, 4, 4, 6])
    kinds = rng.choice(["123M", "1234", "1234M", ALLTYPES, "23", "24"])
    rows = rng.randrange(1, 14)
    ns = []
    dens = rng.choice([[1], [1, 2], [4], [1, 3], [1, 3], [7, 10], [64, 3], [5, 100]])      # the last three leave the 1/48 grid: distinct beats may share a tick
    beats = sorted({Fraction(rng.randrange(0, 8 * d), d) for d in [rng.choice(dens) for _ in range(rows)]})
    for b in beats:
        for c in range(cols):
            if rng.random() < rng.choice([0.3, 0.6]):
                ks = rng.randrange(0, 9) if rng.random() < 0.1 else None
                ns.append([b.numerator, b.denominator, c, rng.choice(kinds), 0, ks])
    types = rng.choice([ALLTYPES, ALLTYPES, DEFAULT, "".join(t for t in ALLTYPES if rng.random() < 0.6), "23", "34", "234", "", "1", "M", "3"])
    return {"ns": ns, "types": types, "mode": rng.choice([1, 2, 3]), "join": rng.random() < 0.7, "ph": rng.choice([1, 2, 3]), "pt": rng.choice([1, 2, 3]),
            "min": rng.choice([1, 1, 2, 3, 4]), "shape": rng.choice([0, 0, 1, 2, 3])}


N_QUICK = len(enumeration(2)) + 1500
N_THOROUGH = len(list(itertools.product(KINDS, repeat=6))) * 12 + 40000


def stream(c):
    if "corpus" in c:
        from simfile.notes import NoteData
        nd = NoteData(G.corpus_charts()[c["corpus"]][2])
        return [G.note_obs(n) for n in nd if n.player == 0]
    return c["ns"]


def item_obs(x):
    from simfile.notes.group import NoteWithTail
    o = G.note_obs(x)
    if isinstance(x, NoteWithTail):
        tb = Fraction(x.tail_beat)
        return o + [tb.numerator, tb.denominator]
    return o


def shaped(c, ns):
    """the stream as the caller may hand it over: a list, a tuple, a one-shot iterator or a generator (all are Iterable[Note])"""
    k = c.get("shape", 0)
    return ns if k == 0 else tuple(ns) if k == 1 else iter(ns) if k == 2 else (n for n in ns)


def impl(c):
    from simfile.notes import NoteType
    from simfile.notes.group import group_notes, SameBeatNotes, OrphanedNotes, OrphanedNoteException
    from simfile.notes import count
    notes_list = [G.mk_note(o) for o in stream(c)]
    types = frozenset(NoteType(t) for t in c["types"])
    mode = SameBeatNotes(c["mode"])
    ph, pt = OrphanedNotes(c["ph"]), OrphanedNotes(c["pt"])
    try:
        kw = {"include_note_types": types, "same_beat_notes": mode, "orphaned_head": ph, "orphaned_tail": pt}
        if c["join"] or c.get("shape", 0) % 2 == 0:
            kw["join_heads_to_tails"] = c["join"]              # joining off is also spelled by leaving the keyword out: the orphan options are then ignored
        groups = [[item_obs(x) for x in g] for g in group_notes(shaped(c, notes_list), **kw)]
        res = ["ok", groups]
    except OrphanedNoteException as e:
        res = ["orphan", G.note_obs(e.args[0])]

    def hr(f):
        try:
            return ["ok", f(shaped(c, notes_list), orphaned_head=ph, orphaned_tail=pt)]
        except OrphanedNoteException as e:
            return ["orphan", G.note_obs(e.args[0])]
    counts = {
        "steps": count.count_steps(shaped(c, notes_list), include_note_types=types, same_beat_notes=mode, same_beat_minimum=c["min"]),
        "jumps": count.count_jumps(shaped(c, notes_list), include_note_types=types, same_beat_notes=mode),
        "hands": count.count_hands(shaped(c, notes_list), include_note_types=types, same_beat_notes=mode),
        "hands_min": count.count_hands(shaped(c, notes_list), include_note_types=types, same_beat_notes=mode, same_beat_minimum=c["min"]),
        "mines": count.count_mines(shaped(c, notes_list)),
        "holds": hr(count.count_holds),
        "rolls": hr(count.count_rolls),
        "steps_default": count.count_steps(shaped(c, notes_list)),
    }
    return {"res": res, "counts": counts}


def requests(c):
    ns = [G.sx_note(o) for o in stream(c)]
    ty = [ord(t) for t in c["types"]]
    return [[90, ty, c["mode"], c["join"], c["ph"], c["pt"], ns],
            [92, ty, c["mode"], c["min"], ns], [92, ty, c["mode"], 2, ns], [92, ty, c["mode"], 3, ns], [93, ns],
            [94, 50, c["ph"], c["pt"], ns], [94, 52, c["ph"], c["pt"], ns],
            [92, [ord(t) for t in DEFAULT], 3, 1, ns]]


def un_item(x):
    if x[0] == 0:
        return G.un_sx_note(x[1])
    tb = Fraction(x[2], x[3])
    return G.un_sx_note(x[1]) + [tb.numerator, tb.denominator]


def un_gres(a):
    a = a[1]
    if a[0] == 0:
        return ["ok", [[un_item(i) for i in g] for g in a[1]]]
    if a[0] == 1:
        return ["orphan", G.un_sx_note(a[1])]
    return ["internal"]


def un_cnt(a):
    a = a[1]
    return a[0] if a else None


def un_hr(a):
    a = a[1]
    if a[0] == 0:
        return ["ok", a[1]]
    if a[0] == 1:
        return ["orphan", G.un_sx_note(a[1])]
    return ["internal"]


def model(c, ans):
    return {"res": un_gres(ans[0]),
            "counts": {"steps": un_cnt(ans[1]), "jumps": un_cnt(ans[2]), "hands": un_cnt(ans[3]), "hands_min": un_cnt(ans[1]), "mines": ans[4][1],
                       "holds": un_hr(ans[5]), "rolls": un_hr(ans[6]), "steps_default": un_cnt(ans[7])}}


# ---- declarative specification (DESIGN Appendix B), independent of the Coq model
HEADS = "24"


def spec_items(ns, join, ph, pt):
    if not join:
        return ["ok", [list(n) for n in ns]]
    out, errs, n = [], [], len(ns)
    for i, x in enumerate(ns):
        prev = next((ns[j] for j in range(i - 1, -1, -1) if ns[j][2] == x[2]), None)
        nxt = next((j for j in range(i + 1, n) if ns[j][2] == x[2]), None)
        if x[3] == "3":
            if prev is not None and prev[3] in HEADS:
                continue
            if pt == 1:
                errs.append(((i, 0), x))
            elif pt == 2:
                out.append(list(x))
        elif x[3] in HEADS:
            if nxt is not None and ns[nxt][3] == "3":
                out.append(list(x) + [ns[nxt][0], ns[nxt][1]])
            elif ph == 1:
                errs.append(((nxt if nxt is not None else n, i), x))
            elif ph == 2:
                out.append(list(x))
        else:
            out.append(list(x))
    if errs:
        return ["orphan", list(min(errs, key=lambda e: e[0])[1])]
    return ["ok", out]


def spec_groups(ns, types, mode, join, ph, pt):
    ns = [n for n in ns if n[3] in types]
    r = spec_items(ns, join, ph, pt)
    if r[0] != "ok":
        return r
    groups = []
    for _, row in itertools.groupby(r[1], key=lambda o: (o[0], o[1])):
        row = list(row)
        if mode == 1:
            groups += [[x] for x in row]
        elif mode == 3:
            groups.append(row)
        else:
            seen = []
            for x in row:
                if x[3] not in seen:
                    seen.append(x[3])
                    groups.append([y for y in row if y[3] == x[3]])
    return ["ok", groups]


def oracle(c, o):
    if "__harness_exc__" in o:
        return "library raised %s (%s)" % (o["__harness_exc__"], o.get("msg"))
    ns = stream(c)
    want = spec_groups(ns, c["types"], c["mode"], c["join"], c["ph"], c["pt"])
    if o["res"] != want:
        return "group_notes gave %s..., the documented rules give %s..." % (str(o["res"])[:300], str(want)[:300])

    def cnt(types, mode, mn):
        g = spec_groups(ns, types, mode, False, 1, 1)[1]
        return sum(len(x) >= mn for x in g)

    def hr(head):
        r = spec_groups(ns, head + "3", 1, True, c["ph"], c["pt"])
        return ["ok", len(r[1])] if r[0] == "ok" else r
    want_counts = {"steps": cnt(c["types"], c["mode"], c["min"]), "jumps": cnt(c["types"], c["mode"], 2), "hands": cnt(c["types"], c["mode"], 3),
                   "hands_min": cnt(c["types"], c["mode"], c["min"]), "mines": sum(n[3] == "M" for n in ns), "holds": hr("2"), "rolls": hr("4"), "steps_default": cnt(DEFAULT, 3, 1)}
    for k, v in want_counts.items():
        if o["counts"][k] != v:
            return "count %s = %s, documented count is %s" % (k, o["counts"][k], v)
    return None


def nontrivial(c, o):
    return sum(1 for n in stream(c) if n[3] in c["types"]) >= 2


def describe(c):
    return "%s/join%d/mode%d/ph%d/pt%d" % ("corpus" if "corpus" in c else "n%d" % (5 * (len(c["ns"]) // 5)), c["join"], c["mode"], c["ph"], c["pt"])


def shrink(c):
    if "corpus" in c:
        ns = stream(c)
        c = dict(c, ns=ns)
        del c["corpus"]
        yield dict(c, ns=ns[: len(ns) // 2])
        yield dict(c, ns=ns[len(ns) // 2:])
        return
    ns = c["ns"]
    if len(ns) > 12:
        yield dict(c, ns=ns[: len(ns) // 2])
        yield dict(c, ns=ns[len(ns) // 2:])
    for i in range(len(ns)):
        yield dict(c, ns=ns[:i] + ns[i + 1:])
