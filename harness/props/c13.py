"""C13 - hittability and note timing follow the warp rules exactly."""
import random
from fractions import Fraction
from decimal import Decimal

from ..driver import SKIP
from .. import gen_timing as GT
from .. import gen_notes as G
from . import c11

ID = "C13"
RULE = ("timing data as for C11; hittable() on every tick around every event and warp end and on random beats; time_notes over generated note data "
        "(routine and keysounded included) and corpus charts x the three UnhittableNotes options: notes exact, times within 1e-9 s; non-trivial = has a warp")
assumptions = c11.assumptions
extra_trusted = c11.extra_trusted


def corpus():
    out = [dict(c, notes=["corpus", 0], opt=1) for c in c11.corpus()]
    # routine keysounded tap inside a warp (F9 regression), keysound index 0
    g = [[[[["1", 0], "0"], ["0", ["M", None]], ["0", "0"], [["1", 3], ["2", None]]]], [[["0", ["1", 7]], ["0", "0"]]]]
    for opt in (1, 2, 3):
        out.append({"td": {"family": "dyadic", "bpms": [[0, "120"]], "stops": [[96, "0.5"]], "delays": [], "warps": [[0, "3.5"]], "offset": "0"},
                    "notes": ["grid", g], "opt": opt, "extra": 0})
    out.append({"td": {"family": "dyadic", "bpms": [[0, "120"]], "stops": [], "delays": [], "warps": [[192, "4"], [240, "0.5"], [288, "0.5"]], "offset": "0"},
                "notes": ["grid", [[[[["1", None]]] * 1] * 3]], "opt": 1, "extra": 0})
    return out


def gen(rng, i, tier):
    en = c11.enumeration(3 if tier == "thorough" else 2)
    td = en[i] if i < len(en) else GT.rand_td(rng)
    g = G.rand_grid(rng, max_measures=3)
    return {"td": td, "notes": ["grid", g], "opt": rng.choice([1, 2, 3]), "extra": rng.randrange(1, 1 << 30) if i >= len(en) else 0}


N_QUICK = len(c11.enumeration(2)) + 500
N_THOROUGH = len(GT.small_grid_tds(3)) + 30000


def hit_beats(c):
    rng = random.Random(c.get("extra") or 0) if c.get("extra") else None
    pts = GT.probe_beats(c["td"], rng)
    out = set()
    for p in pts:
        out |= set(range(p - 2, p + 3))
    return sorted(out)


def note_list(c):
    if c["notes"][0] == "grid":
        return G.expected_notes(c["notes"][1]), G.render_grid(c["notes"][1], 0)
    from simfile.notes import NoteData
    txt = G.corpus_charts()[c["notes"][1]][2].split("&")[0]
    txt = ",".join(txt.split(",")[:6])                       # the first measures are enough; keeps the case small
    return [G.note_obs(n) for n in NoteData(txt)], txt


def impl(c):
    from simfile.timing import Beat
    from simfile.timing.engine import TimingEngine
    from simfile.notes import NoteData
    from simfile.notes.timed import time_notes, UnhittableNotes
    td = GT.mk_timing_data(c["td"])
    eng = TimingEngine(td)
    hb = list(hit_beats(c))
    hits = [bool(eng.hittable(Beat(b, 48))) for b in hb]
    import random as _r
    idx = list(range(len(hb)))
    back = {i: bool(eng.hittable(Beat(hb[i], 48))) for i in reversed(idx)}
    _r.Random(5).shuffle(idx)
    shuf = {i: bool(eng.hittable(Beat(hb[i], 48))) for i in idx}
    hit_unstable = [hb[i] for i in range(len(hb)) if back[i] != hits[i] or shuf[i] != hits[i]]
    ns, txt = note_list(c)
    timed = []
    for tn in time_notes(NoteData(txt), td, UnhittableNotes(c["opt"])):
        timed.append([float(tn.time), G.note_obs(tn.note)])
    # the same events under another offset, in the same process: every time moves by exactly the difference
    from decimal import Decimal
    td2 = GT.mk_timing_data(dict(c["td"], offset=str(Decimal(c["td"]["offset"]) + Decimal("1.25"))))
    timed2 = [[float(tn.time), G.note_obs(tn.note)] for tn in time_notes(NoteData(txt), td2, UnhittableNotes(c["opt"]))]
    shift = len(timed2) == len(timed) and all(n1 == n2 and abs((t2 - t1) + 1.25) < 1e-9 for (t1, n1), (t2, n2) in zip(timed, timed2))
    # a timing data object that was used once with fewer events and then edited in place to hold these: the answers follow the edit
    td3 = GT.mk_timing_data(dict(c["td"], stops=[], delays=[], warps=[]))
    list(time_notes(NoteData(txt), td3, UnhittableNotes(c["opt"])))
    td3.stops.extend(td.stops); td3.delays.extend(td.delays); td3.warps.extend(td.warps)
    timed3 = [[float(tn.time), G.note_obs(tn.note)] for tn in time_notes(NoteData(txt), td3, UnhittableNotes(c["opt"]))]
    return {"hits": hits, "timed": timed, "offset_shift": bool(shift), "hit_unstable": hit_unstable[:5], "after_edit_same": timed3 == timed}


def requests(c):
    ns, _ = note_list(c)
    beats = [[n[0], n[1]] for n in ns]
    return [[110, GT.td_q(c["td"]), [], [], [[b, 48] for b in hit_beats(c)], []],
            [111, GT.td_q(c["td"]), c["opt"], [G.sx_note(n) for n in ns]]]


def model(c, ans):
    a = ans[0][1]
    if a[0] != 0:
        return {"error": a[0]}
    hits = [bool(x) for x in a[4]]
    b = ans[1][1]
    timed = []
    for t, n in b[1]:
        q = GT.un_q(t)
        timed.append([[q.numerator, q.denominator], G.un_sx_note(n)])
    return {"hits": hits, "timed": timed}


def agree(io, mo):
    if "__harness_exc__" in io or "error" in mo:
        return False
    if io["hits"] != mo["hits"] or len(io["timed"]) != len(mo["timed"]):
        return False
    for (t, n), (q, m) in zip(io["timed"], mo["timed"]):
        if n != m or not c11.close(t, q):
            return False
    return True


def oracle(c, o):
    if "__harness_exc__" in o:
        return "library raised %s (%s)" % (o["__harness_exc__"], o.get("msg"))
    td = c["td"]
    for b, h in zip(hit_beats(c), o["hits"]):
        want = not GT.spec_unhittable(td, Fraction(b, 48))
        if h != want:
            return "hittable(%s) = %s, the warp rule says %s" % (Fraction(b, 48), h, want)
    ns, _ = note_list(c)
    exp = []
    for n in ns:
        b = Fraction(n[0], n[1])
        un = GT.spec_unhittable(td, b)
        if not un or c["opt"] == 3:
            exp.append((GT.spec_time(td, b, 5), n))
        elif c["opt"] == 1 and n[3] == "1":
            exp.append((GT.spec_time(td, b, 5), n[:3] + ["F"] + n[4:]))
    if [n for t, n in o["timed"]] != [n for t, n in exp]:
        for (t, n), (q, m) in zip(o["timed"], exp):
            if n != m:
                return "timed note %s, the rule gives %s" % (n, m)
        return "%d timed notes, the rule gives %d" % (len(o["timed"]), len(exp))
    for (t, n), (q, m) in zip(o["timed"], exp):
        if not c11.close(t, q):
            return "note %s timed at %r, exact time is %s" % (n, t, float(q))
    if o.get("hit_unstable"):
        return "hittable(%s) changed its answer when asked again on the same engine in another order" % Fraction(o["hit_unstable"][0], 48)
    if o.get("after_edit_same") is False:
        return "time_notes on a timing data object edited in place (stops, delays, warps added after an earlier call) differs from time_notes on a fresh object with the same events"
    if o.get("offset_shift") is False:
        return "the same notes timed under offset + 1.25 (same events, same process) did not all move by -1.25 s"
    return None


def nontrivial(c, o):
    return bool(c["td"]["warps"])


def describe(c):
    return c11.describe(c) + "/opt%d" % c["opt"]


def shrink(c):
    for x in c11.shrink(c):
        yield x
    if c["notes"][0] == "grid":
        g = c["notes"][1]
        for p in range(len(g)):
            for m in range(len(g[p])):
                if len(g[p]) > 1:
                    yield dict(c, notes=["grid", g[:p] + [g[p][:m] + g[p][m + 1:]] + g[p + 1:]])
