"""Timing data generators and exact reference (C11, C12, C13, C15)."""
import itertools
from decimal import Decimal
from fractions import Fraction

TAGS = ["WARP", "WARP_END", "BPM", "DELAY", "DELAY_END", "STOP", "STOP_END"]
T = {n: i for i, n in enumerate(TAGS)}
TICK = Fraction(1, 48)


def dstr(fr_or_str):
    return str(fr_or_str)


def rand_td(rng, family=None):
    family = family or rng.choice(["dyadic", "dyadic", "general"])
    dy = family == "dyadic"
    step = 3 if dy else 1                                  # beats on the 1/16 grid keep every float operation exact
    span = rng.choice([8, 32, 200]) * 48
    pool = sorted({0} | {rng.randrange(0, span // step) * step for _ in range(rng.choice([2, 4, 8]))})

    def beats(n, include0=None):
        k = min(n, len(pool))
        b = sorted(rng.sample(pool, k))
        return b

    def bpmval():
        if dy:
            return str(Fraction(60 * 2 ** rng.randrange(-2, 5)))
        return rng.choice(["120", "150.5", "133.333", "60", "1", "2000", "89.97", "200.001"])

    def pause():
        if dy:
            return str(Decimal(rng.randrange(1, 64)) / Decimal(2 ** rng.choice([0, 1, 2, 3, 4, 5, 12, 14])))       # down to 1/16384 s
        return rng.choice(["0.5", "1", "0.133", "2.25", "0.001", "10", "0.0005", "0.00075", "0.000001", "1e-4"])      # any positive length, however short

    def warplen():
        if dy:
            return str(Decimal(rng.randrange(1, 64)) / Decimal(16))
        return rng.choice(["1", "0.5", "4", "2.25", "0.021", "0.333", "8", "0.3", "0.4", "0.05", "1.1", "0.167", "0.9", "0.015", "0.011", "0.02", "0.005", "0.03"])      # short decimals off the tick grid too: the engine snaps the length to the tick

    bb = beats(rng.choice([1, 1, 2, 3, 4]))
    if 0 not in bb:
        bb = [0] + bb
    td = {"family": family,
          "bpms": [[b, bpmval()] for b in bb],
          "stops": [[b, pause()] for b in beats(rng.choice([0, 1, 2, 3]))],
          "delays": [[b, pause()] for b in beats(rng.choice([0, 0, 1, 2]))],
          "warps": [[b, warplen()] for b in beats(rng.choice([0, 1, 2, 3]))],
          "offset": (str(Decimal(rng.randrange(-64, 64)) / Decimal(16)) if dy else rng.choice(["0", "-0.009", "1.5", "0.123456", "-12.25"]))}
    return td


def small_grid_tds(max_events):
    """all placements of up to max_events events on beats 0..3 (dyadic values)"""
    opts = []
    for b in (0, 1, 2, 3):
        if b:
            opts.append(("bpms", b * 48, "240"))
        opts.append(("stops", b * 48, "0.5"))
        opts.append(("delays", b * 48, "0.25"))
        opts.append(("warps", b * 48, "1"))
        opts.append(("warps", b * 48, "2.5"))
    out = []
    for k in range(0, max_events + 1):
        for combo in itertools.combinations(opts, k):
            keys = [(c[0], c[1]) for c in combo]
            if len(set(keys)) != len(keys):
                continue
            td = {"family": "dyadic", "bpms": [[0, "120"]], "stops": [], "delays": [], "warps": [], "offset": "0.25"}
            for f, b, v in combo:
                td[f].append([b, v])
            for f in ("bpms", "stops", "delays", "warps"):
                td[f].sort()
            out.append(td)
    return out


def td_q(td):
    """sx encoding: rationals as [num, den]"""
    def q(x):
        f = Fraction(x)
        return [f.numerator, f.denominator]
    return [[[q(Fraction(b, 48)), q(Fraction(Decimal(v)))] for b, v in td[f]] for f in ("bpms", "stops", "delays", "warps")] + [q(Fraction(Decimal(td["offset"])))]


def mk_timing_data(td):
    from simfile.timing import TimingData, BeatValues, BeatValue, Beat
    t = TimingData.__new__(TimingData)
    for f in ("bpms", "stops", "delays", "warps"):
        setattr(t, f, BeatValues([BeatValue(Beat(b, 48), Decimal(v)) for b, v in td[f]]))
    t.offset = Decimal(td["offset"])
    return t


def probe_beats(td, rng=None):
    """every event beat and warp end, their neighbouring ticks, a negative beat, a beat after everything"""
    pts = {0}
    for f in ("bpms", "stops", "delays", "warps"):
        for b, v in td[f]:
            pts.add(b)
            if f == "warps":
                pts.add(b + round(Fraction(Decimal(v)) * 48))
    out = set()
    for p in pts:
        out |= {p - 1, p, p + 1}
    out |= {-48, -7, max(pts) + 100}
    if rng:
        out |= {rng.randrange(-96, max(pts) + 200) for _ in range(4)}
    return sorted(out)


def round_tick(x):
    return Fraction(round(Fraction(x) * 48), 48)


# ---- exact reference: DESIGN Appendix B (closed form; warps raw, not coalesced)
def spec_time(td, beat, tag):
    bpms = [(Fraction(b, 48), Fraction(Decimal(v))) for b, v in td["bpms"]]
    stops = [(Fraction(b, 48), Fraction(Decimal(v))) for b, v in td["stops"]]
    delays = [(Fraction(b, 48), Fraction(Decimal(v))) for b, v in td["delays"]]
    warps = [(Fraction(b, 48), round_tick(Fraction(Decimal(v)))) for b, v in td["warps"]]
    t = -Fraction(Decimal(td["offset"]))
    if beat < 0:
        return t + beat * 60 / bpms[0][1]
    pts = sorted({Fraction(0), beat} | {b for b, _ in bpms if 0 < b < beat} | {x for s, l in warps for x in (s, s + l) if 0 < x < beat})
    for a, c in zip(pts, pts[1:]):
        if any(s <= a < s + l for s, l in warps):
            continue
        t += (c - a) * 60 / [v for b, v in bpms if b <= a][-1]
    t += sum(v for b, v in stops if b < beat or (b == beat and tag >= T["STOP_END"]))
    t += sum(v for b, v in delays if b < beat or (b == beat and tag >= T["DELAY_END"]))
    return t


def spec_unhittable(td, beat):
    warps = [(Fraction(b, 48), round_tick(Fraction(Decimal(v)))) for b, v in td["warps"]]
    pauses = {Fraction(b, 48) for b, v in td["stops"]} | {Fraction(b, 48) for b, v in td["delays"]}
    return any(s <= beat < s + l for s, l in warps) and beat not in pauses


def spec_bpm(td, beat):
    bpms = [(Fraction(b, 48), Fraction(Decimal(v))) for b, v in td["bpms"]]
    return [v for b, v in bpms if b <= max(beat, 0)][-1]


def un_q(x):
    return Fraction(x[0], x[1])
