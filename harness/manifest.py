"""Writes MANIFEST.json from what is actually built (a property is claimed when both
harness/props/cNN.py and coq/Properties/CNN.v exist)."""
import json, os, importlib, sys
V = os.path.dirname(os.path.dirname(os.path.abspath(__file__)))
sys.path.insert(0, V)
ids = ["C%02d" % i for i in range(1, 21)]
checks, na = [], []
for i in ids:
    pm = os.path.join(V, "harness", "props", i.lower() + ".py")
    pv = os.path.join(V, "coq", "Properties", i + ".v")
    if os.path.exists(pm) and os.path.exists(pv):
        src = open(pm).read()
        doc = src.split('"""')[1].strip() if '"""' in src else i
        meta = {}
        mp = os.path.join(V, "harness", "props", i.lower() + ".meta.json")
        if os.path.exists(mp):
            meta = json.load(open(mp))
        checks.append({
            "property_id": i,
            "quick_cmd": "./check %s --tier quick" % i,
            "thorough_cmd": "./check %s --tier thorough" % i,
            "evidence_file": "evidence/%s.json" % i,
            "replay_cmd_template": "./check %s --replay {path}" % i,
            "engine": "coq-model+correspondence",
            "level_claimed": {
                "category": "proof",
                "text": meta.get("level_text", "Coq theorems about an executable Gallina model of the code (Properties/%s.v, closed under the global context), tied to /repo on every run by regenerated tables and a differential correspondence check of model vs implementation; the parts left to the correspondence are listed in DESIGN.md" % i),
                "design_ref": "DESIGN.md section 6, %s; section 10 (as built)" % i,
            },
            "level_note": meta.get("level_note", "Trusted: Coq 8.16.1 kernel + vm_compute; the hand-written model's fidelity (checked by correspondence only: differential testing, bounded by generator quality); extraction + OCaml driver (cross-checked against vm_compute each run); Python harness and CPython. No axioms: every theorem prints 'Closed under the global context'."),
            "technique": meta.get("technique", "machine-checked proof in Coq over a hand-written model + model/implementation correspondence check"),
        })
    else:
        na.append({"property_id": i, "reason": "check not yet built in this round (model/theorems under construction); not claimed"})
m = {
    "version": 1,
    "setup_cmd": "./setup.sh",
    "hooks": {"guard": "SIMFILE_VERIF", "enable": "no source hooks are needed: the harness imports /repo with PYTHONPATH=/repo and observes only public API results",
              "baseline_off_cmd": "cd /repo && /venv/bin/python -m pytest -ra -q -p no:cacheprovider --timeout=900", "source_commits": [], "add_only": True},
    "engines": [{"name": "coq-model+correspondence", "path": "coq/ harness/", "serves_properties": [c["property_id"] for c in checks],
                 "kind_free_text": "Coq 8.16.1 development (Model, Proofs, Properties, Generated tables) + extracted OCaml runner + Python differential harness"}],
    "checks": checks,
    "notes": "Each check: regenerate Generated/Tables.v from the imported /repo, build the proof closure of Properties/Cxx.v (full .vo), Print Assumptions, extract and run the model against the implementation on generated cases, restate the property on the real code as a search oracle. See DESIGN.md.",
    "not_applicable": na,
}
json.dump(m, open(os.path.join(V, "MANIFEST.json"), "w"), indent=1)
print("claimed:", [c["property_id"] for c in checks])
