#!/usr/bin/env python3
"""tools/benigntest.py [Bxx ...] : apply each behaviour-preserving refactor under seeded/benign/ to /repo, run the quick
checks of the properties it touches (meta.json "properties"; all twenty when absent), revert.  Every check must exit 0
without a VIOLATION line: an alarm here is a false alarm of the machinery.  Never leaves /repo modified."""
import glob, json, os, subprocess, sys
V = os.path.dirname(os.path.dirname(os.path.abspath(__file__)))
want = [a.upper() for a in sys.argv[1:]]
ALL = ["C%02d" % i for i in range(1, 21)]
rows = []
for d in sorted(glob.glob(os.path.join(V, "seeded", "benign", "B*"))):
    name = os.path.basename(d)
    if want and name not in want:
        continue
    meta = json.load(open(os.path.join(d, "meta.json")))
    pids = meta.get("properties") or ALL
    if subprocess.run(["git", "-C", "/repo", "status", "--porcelain"], capture_output=True, text=True).stdout.strip():
        sys.exit("/repo is not clean")
    try:
        subprocess.run(["git", "-C", "/repo", "apply", os.path.join(d, "patch.diff")], check=True)
        for pid in pids:
            p = subprocess.run([os.path.join(V, "check"), pid, "--tier", "quick"], capture_output=True, text=True, cwd=V)
            vio = [l for l in p.stdout.splitlines() if l.startswith("VIOLATION")]
            verdict = "quiet" if p.returncode == 0 and not vio else "FALSE-ALARM"
            rows.append((name, pid, verdict, p.returncode))
            print(name, pid, verdict, "rc=%d" % p.returncode, (vio[0] if vio else ""), flush=True)
            if verdict != "quiet":
                open(os.path.join(V, "build", "benign-%s-%s.out" % (name, pid)), "w").write(p.stdout + p.stderr)
    finally:
        subprocess.run(["git", "-C", "/repo", "checkout", "--", "."])
        subprocess.run(["git", "-C", "/repo", "clean", "-fdq", "--", "simfile"])
json.dump(rows, open(os.path.join(V, "build", "benigntest-last.json"), "w"))
sys.exit(1 if any(r[2] != "quiet" for r in rows) else 0)
