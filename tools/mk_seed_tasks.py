#!/venv/bin/python
"""mk_seed_tasks.py <batch-dir> <n>: scratch worktrees of /repo HEAD and TASK.md files for the n-th batch of seeded changes.
Each sub-agent gets only the property text, the summaries of the earlier changes for that property (to avoid repeats) and
its own worktree under <batch-dir>; nothing from /verif's checks."""
import glob, json, os, subprocess, sys

base, n = sys.argv[1], sys.argv[2]
V = os.path.dirname(os.path.dirname(os.path.abspath(__file__)))
props = [json.loads(l) for l in open(os.path.join(V, "properties.jsonl"))]
os.makedirs(base, exist_ok=True)
for p in props:
    pid = p["id"]
    wt, out = f"{base}/{pid}-wt", f"{base}/{pid}-out"
    os.makedirs(out, exist_ok=True)
    if not os.path.exists(wt):
        subprocess.run(["git", "-C", "/repo", "worktree", "add", "-q", "--detach", wt, "HEAD"], check=True)
    earlier = []
    for d in sorted(glob.glob(os.path.join(V, "seeded", pid + "-m*"))):
        try:
            earlier.append("- " + json.load(open(d + "/meta.json"))["summary"].replace("\n", " ")[:700])
        except Exception:
            pass
    quant = p.get("quantifier") or {}
    qtext = quant.get("text") if isinstance(quant, dict) else str(quant)
    txt = f"""# Task: seed one realistic defect into a Python library (for evaluating a verification tool)

You work in a scratch git worktree of the library `simfile` at `{wt}` (write only there and in `{out}`).
Never touch any other directory (in particular not /repo and not /verif), never commit, never use `git stash`
(the stash is shared between worktrees).

The library documents this behaviour (call it property {pid}):

**{p['title']}**

{p['statement']}

Quantifier / domain: {qtext}

Make ONE small, realistic change to the library source that makes this property FALSE for some inputs inside the
quantifier, while
  * the package still imports and the existing test suite still passes:
    `cd {wt} && PYTHONPATH={wt} /venv/bin/python -m pytest -q -p no:cacheprovider --deselect simfile/tests/test_assets.py`
    (`simfile/tests/test_assets.py::test_predefined_assets` is known to be flaky; everything else must pass; check with
    `PYTHONPATH={wt} /venv/bin/python -c "import simfile; print(simfile.__file__)"` that the worktree copy is imported);
  * the change looks like something a maintainer could plausibly commit (an optimisation, a refactor gone slightly wrong, a
    "robustness" tweak, a tidy-up of a helper), not like sabotage; no comments that reveal it;
  * it is NOT a repeat of these earlier seeded changes for the same property - pick a different clause of the statement,
    a different function, and preferably a different layer (a shared private helper, a base class, a module this property
    only reaches indirectly, an interaction between two features, state kept between calls, an unusual but allowed input
    shape):
{chr(10).join(earlier) if earlier else '- (none yet)'}

Prefer defects that need a somewhat unusual - but allowed - input, option combination or call history to show, rather than
ones every call trips over.
Aim for a corner of the quantifier's input space that a random test generator written from the property text alone would
be unlikely to reach: unusual sizes or counts, rare but allowed combinations of options, other spellings of the same argument
(paths, cases, iterables of another type), rarely used public entry points or methods that share the code, values at the
edge of what the statement allows, state left behind by an earlier call.

Deliverables in `{out}`:
1. `patch.diff` - `cd {wt} && git diff > {out}/patch.diff` (must apply with `git apply` on a clean checkout).
2. `demo.py` - a self-contained script using only the public API (run as `PYTHONPATH=<tree> /venv/bin/python demo.py`) that
   exits 0 on the clean tree and exits 1 on the changed tree, printing what differs. Run it both ways.
3. `meta.json` - keys `property` ("{pid}"), `summary` (file, function, what changed, the plausible motivation), `needs`
   (what an input/history must look like to show the defect, and what is unaffected), `clause` (the words of the statement
   that become false).
Finally leave the worktree reverted (`git checkout -- . && git clean -fdq`, `git status` clean) and report briefly.
"""
    open(f"{out}/TASK.md", "w").write(txt)
print("ok", len(props))
