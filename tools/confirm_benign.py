#!/venv/bin/python
"""Confirm a sub-agent's behaviour-preserving refactor in its scratch worktree and keep it under /verif/seeded/benign.

usage: confirm_benign.py <batch-dir> Bxx[:Cxx,Cyy...] ...    e.g. confirm_benign.py /tmp/benign B05:C09,C10

apply; pytest (flaky test_assets deselected) -> pass; the agent's own equivalence script -> rc 0; checkout.
Never touches /repo's working tree."""
import json, os, shutil, subprocess, sys

def sh(cmd, cwd, env=None, timeout=1800):
    e = dict(os.environ)
    e.update(env or {})
    p = subprocess.run(cmd, cwd=cwd, env=e, shell=True, capture_output=True, text=True, timeout=timeout)
    return p.returncode, (p.stdout + p.stderr)

def main():
    base, items = sys.argv[1], sys.argv[2:]
    ok_all = True
    for it in items:
        bid, _, pl = it.partition(":")
        wt, out = f"{base}/{bid}-wt", f"{base}/{bid}-out"
        if not pl and os.path.exists(f"{out}/props.txt"):
            pl = open(f"{out}/props.txt").read().strip()
        env = {"PYTHONPATH": wt, "PYTHONHASHSEED": "0"}
        if not all(os.path.exists(f"{out}/{f}") for f in ("patch.diff", "meta.json")):
            print(bid, "MISSING files"); ok_all = False; continue
        sh("git checkout -q -- . && git clean -fdq", wt)
        steps = []
        rca, oa = sh(f"git apply {out}/patch.diff", wt)
        steps.append("git apply patch.diff" + ("" if rca == 0 else f" FAILED {oa[-200:]}"))
        rct, ot = sh("/venv/bin/python -m pytest -q -p no:cacheprovider --deselect simfile/tests/test_assets.py -x", wt, env)
        tail = ot.strip().splitlines()[-1] if ot.strip() else ""
        steps.append(f"pytest (flaky test_assets deselected) -> rc {rct}: {tail}")
        rce = 0
        if os.path.exists(f"{out}/equiv.py"):
            rce, oe = sh(f"/venv/bin/python {out}/equiv.py", wt, None)
            steps.append(f"agent's equiv.py (original vs refactored) -> rc {rce}")
        sh("git checkout -q -- . && git clean -fdq", wt)
        good = rca == 0 and rct == 0 and rce == 0
        print(bid, "OK" if good else "BAD", "|", " ; ".join(steps))
        if not good:
            ok_all = False
            continue
        dst = os.path.join(os.path.dirname(os.path.dirname(os.path.abspath(__file__))), "seeded", "benign", bid)
        os.makedirs(dst, exist_ok=True)
        shutil.copy(f"{out}/patch.diff", f"{dst}/patch.diff")
        meta = json.load(open(f"{out}/meta.json"))
        if pl:
            meta["properties"] = pl.split(",")
        meta["verified"] = {"worktree": "scratch worktree of /repo HEAD under /tmp (removed afterwards)", "ran": steps}
        json.dump(meta, open(f"{dst}/meta.json", "w"), indent=1)
    sys.exit(0 if ok_all else 1)

main()
