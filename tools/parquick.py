#!/usr/bin/env python3
"""tools/parquick.py [-jN] seed [seed ...]: the quick tier of every property on the unchanged tree for each given VERIF_SEED, in parallel on scratch copies."""
import concurrent.futures as cf, os, shutil, subprocess, sys, tempfile
V = os.path.dirname(os.path.dirname(os.path.abspath(__file__)))
args = sys.argv[1:]
jobs = next((int(a[2:]) for a in args if a.startswith("-j")), 12)
seeds = [a for a in args if not a.startswith("-")]
tasks = [(s, "C%02d" % i) for s in seeds for i in range(1, 21)]
scratch = tempfile.mkdtemp(prefix="parquick_")


def run(t):
    s, pid = t
    w = tempfile.mkdtemp(prefix="w_", dir=scratch)
    try:
        subprocess.run(["rsync", "-a", "--exclude", ".git", "--exclude", "replays/*", V + "/", w + "/"], check=True)
        p = subprocess.run([os.path.join(w, "check"), pid, "--tier", "quick"], capture_output=True, text=True, cwd=w, env=dict(os.environ, VERIF_SEED=s))
        vio = [l for l in p.stdout.splitlines() if l.startswith("VIOLATION")]
        if vio or p.returncode:
            keep = os.path.join(V, "build", "quick-fail-%s-%s" % (pid, s))
            shutil.rmtree(keep, ignore_errors=True)
            shutil.copytree(os.path.join(w, "replays"), keep)
        return s, pid, p.returncode, len(vio)
    finally:
        shutil.rmtree(w, ignore_errors=True)


bad = 0
try:
    with cf.ThreadPoolExecutor(jobs) as ex:
        for s, pid, rc, nv in ex.map(run, tasks):
            if rc or nv:
                bad += 1
                print("seed %s %s rc=%d violations=%d" % (s, pid, rc, nv), flush=True)
finally:
    shutil.rmtree(scratch, ignore_errors=True)
print("%d runs, %d not clean" % (len(tasks), bad))
