#!/usr/bin/env python3
"""tools/parthorough.py [-jN] [Cxx ...]: the thorough tier of each property on the unchanged tree, in parallel, each in its own scratch copy
of /verif (the checks share build directories otherwise); /repo is only read."""
import concurrent.futures as cf, os, shutil, subprocess, sys, tempfile, time
V = os.path.dirname(os.path.dirname(os.path.abspath(__file__)))
args = sys.argv[1:]
jobs = next((int(a[2:]) for a in args if a.startswith("-j")), 5)
want = [a.upper() for a in args if not a.startswith("-")] or ["C%02d" % i for i in range(1, 21)]
scratch = tempfile.mkdtemp(prefix="parthorough_")


def run(pid):
    w = os.path.join(scratch, pid)
    t0 = time.time()
    try:
        subprocess.run(["rsync", "-a", "--exclude", ".git", "--exclude", "replays/*", V + "/", w + "/"], check=True)
        p = subprocess.run([os.path.join(w, "check"), pid, "--tier", "thorough"], capture_output=True, text=True, cwd=w)
        vio = [l for l in p.stdout.splitlines() if l.startswith("VIOLATION")]
        keep = None
        if vio or p.returncode != 0:
            keep = os.path.join(V, "build", "thorough-fail-%s" % pid)
            shutil.rmtree(keep, ignore_errors=True)
            shutil.copytree(os.path.join(w, "replays"), keep)
        else:
            shutil.copy(os.path.join(w, "evidence", pid + ".json"), os.path.join(V, "evidence", pid + ".json"))
        return pid, p.returncode, len(vio), time.time() - t0, (p.stdout[-400:] + p.stderr[-400:]) if (vio or p.returncode) else ""
    finally:
        shutil.rmtree(w, ignore_errors=True)


try:
    with cf.ThreadPoolExecutor(jobs) as ex:
        for pid, rc, nv, dt, tail in ex.map(run, want):
            print("%s rc=%d violations=%d %.0fs %s" % (pid, rc, nv, dt, tail.replace("\n", " | ")), flush=True)
finally:
    shutil.rmtree(scratch, ignore_errors=True)
