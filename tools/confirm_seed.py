#!/venv/bin/python
"""Confirm a sub-agent's seeded change in its scratch worktree and keep it under /verif/seeded.

usage: confirm_seed.py <batch-dir> <suffix> [Cxx ...]     e.g. confirm_seed.py /tmp/seed5 m5 C01 C02

For each property: demo on the clean worktree -> rc 0; git apply; pytest (flaky test_assets deselected) -> pass;
demo on the changed worktree -> rc 1; git checkout.  Never touches /repo's working tree."""
import json, os, shutil, subprocess, sys

def sh(cmd, cwd, env=None, timeout=900):
    e = dict(os.environ)
    e.update(env or {})
    p = subprocess.run(cmd, cwd=cwd, env=e, shell=True, capture_output=True, text=True, timeout=timeout)
    return p.returncode, (p.stdout + p.stderr)

def main():
    base, suffix, ids = sys.argv[1], sys.argv[2], sys.argv[3:]
    ok_all = True
    for pid in ids:
        wt, out = f"{base}/{pid}-wt", f"{base}/{pid}-out"
        env = {"PYTHONPATH": wt, "PYTHONHASHSEED": "0"}
        if not all(os.path.exists(f"{out}/{f}") for f in ("patch.diff", "demo.py", "meta.json")):
            print(pid, "MISSING files"); ok_all = False; continue
        sh("git checkout -q -- . && git clean -fdq", wt)
        steps = []
        rc0, o0 = sh(f"/venv/bin/python {out}/demo.py", wt, env)
        steps.append(f"demo.py on clean tree -> rc {rc0}")
        rca, oa = sh(f"git apply {out}/patch.diff", wt)
        steps.append("git apply patch.diff" + ("" if rca == 0 else f" FAILED {oa[-200:]}"))
        rct, ot = sh("/venv/bin/python -m pytest -q -p no:cacheprovider --deselect simfile/tests/test_assets.py -x", wt, env)
        tail = ot.strip().splitlines()[-1] if ot.strip() else ""
        steps.append(f"pytest (flaky test_assets deselected) -> rc {rct}: {tail}")
        rc1, o1 = sh(f"/venv/bin/python {out}/demo.py", wt, env)
        steps.append(f"demo.py on changed tree -> rc {rc1}")
        sh("git checkout -q -- . && git clean -fdq", wt)
        good = rc0 == 0 and rca == 0 and rct == 0 and rc1 == 1
        print(pid, "OK" if good else "BAD", "|", " ; ".join(steps))
        if not good:
            ok_all = False
            continue
        dst = os.path.join(os.path.dirname(os.path.dirname(os.path.abspath(__file__))), "seeded", f"{pid}-{suffix}")
        os.makedirs(dst, exist_ok=True)
        for f in ("patch.diff", "demo.py"):
            shutil.copy(f"{out}/{f}", f"{dst}/{f}")
        meta = json.load(open(f"{out}/meta.json"))
        meta["verified"] = {"worktree": "scratch worktree of /repo HEAD under /tmp (removed afterwards)", "ran": steps}
        json.dump(meta, open(f"{dst}/meta.json", "w"), indent=1)
    sys.exit(0 if ok_all else 1)

main()
