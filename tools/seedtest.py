#!/usr/bin/env python3
"""tools/seedtest.py [Cxx ...] : apply each seeded change to /repo, run the property's quick check, revert.
Prints caught/missed; never leaves /repo modified."""
import glob, json, os, subprocess, sys
V = os.path.dirname(os.path.dirname(os.path.abspath(__file__)))
want = [a.upper() for a in sys.argv[1:] if not a.startswith("-m")]
suffix = [a[1:] for a in sys.argv[1:] if a.startswith("-m")]
rows = []
for d in sorted(glob.glob(os.path.join(V, "seeded", "C*-m*"))):
    name = os.path.basename(d)
    pid = name.split("-")[0]
    if want and pid not in want:
        continue
    if suffix and name.split("-")[1] not in suffix:
        continue
    if subprocess.run(["git", "-C", "/repo", "status", "--porcelain"], capture_output=True, text=True).stdout.strip():
        sys.exit("/repo is not clean")
    try:
        subprocess.run(["git", "-C", "/repo", "apply", os.path.join(d, "patch.diff")], check=True)
        p = subprocess.run([os.path.join(V, "check"), pid, "--tier", "quick"], capture_output=True, text=True, cwd=V)
    finally:
        subprocess.run(["git", "-C", "/repo", "checkout", "--", "."])
        subprocess.run(["git", "-C", "/repo", "clean", "-fdq", "--", "simfile"])
    vio = [l for l in p.stdout.splitlines() if l.startswith("VIOLATION")]
    with_input = [l for l in vio if "no-failing-input-found" not in l]
    verdict = "CAUGHT(with input)" if with_input else "CAUGHT(no input)" if vio else "MISSED"
    rows.append((name, verdict, p.returncode))
    print(name, verdict, "rc=%d" % p.returncode, flush=True)
json.dump(rows, open(os.path.join(V, "build", "seedtest-last.json"), "w"))
