#!/usr/bin/env python3
"""tools/partest.py [-jN] [--benign] [-mK ...] [Cxx|Bxx ...] : the seeded / behaviour-preserving regression in parallel,
without touching /repo: every worker gets its own copy of /verif and of /repo's HEAD (git archive) under a scratch
directory, applies one change to its repository copy, runs the quick checks there with VERIF_REPO pointing at the copy,
and throws both copies away.  Seeded changes must be caught (with a failing input); benign ones must stay quiet."""
import concurrent.futures as cf, glob, json, os, shutil, subprocess, sys, tempfile
V = os.path.dirname(os.path.dirname(os.path.abspath(__file__)))
args = sys.argv[1:]
jobs = next((int(a[2:]) for a in args if a.startswith("-j")), 6)
benign = "--benign" in args
suffix = [a[1:] for a in args if a.startswith("-m")]
want = [a.upper() for a in args if not a.startswith("-")]
ALL = ["C%02d" % i for i in range(1, 21)]

tasks = []
if benign:
    for d in sorted(glob.glob(os.path.join(V, "seeded", "benign", "B*"))):
        name = os.path.basename(d)
        if want and name not in want:
            continue
        props = ALL if "--all-props" in args else (json.load(open(os.path.join(d, "meta.json"))).get("properties") or ALL)
        for p in props:
            tasks.append((name, d, p))
else:
    for d in sorted(glob.glob(os.path.join(V, "seeded", "C*-m*"))):
        name = os.path.basename(d)
        pid, m = name.split("-")
        if (want and pid not in want) or (suffix and m not in suffix):
            continue
        tasks.append((name, d, pid))

scratch = tempfile.mkdtemp(prefix="partest_")
pristine = os.path.join(scratch, "repo0")
os.makedirs(pristine)
subprocess.run("git -C /repo archive HEAD | tar -x -C %s" % pristine, shell=True, check=True)
if subprocess.run(["git", "-C", "/repo", "status", "--porcelain"], capture_output=True, text=True).stdout.strip():
    sys.exit("/repo is not clean (the copies are taken from HEAD)")


def run(t):
    name, d, pid = t
    w = tempfile.mkdtemp(prefix="w_", dir=scratch)
    try:
        repo, verif = os.path.join(w, "repo"), os.path.join(w, "verif")
        shutil.copytree(pristine, repo)
        subprocess.run(["rsync", "-a", "--exclude", ".git", "--exclude", "replays/*", V + "/", verif + "/"], check=True)
        subprocess.run(["git", "apply", os.path.join(d, "patch.diff")], cwd=repo, check=True)
        env = dict(os.environ, VERIF_REPO=repo)
        p = subprocess.run([os.path.join(verif, "check"), pid, "--tier", "quick"], capture_output=True, text=True, cwd=verif, env=env)
        vio = [l for l in p.stdout.splitlines() if l.startswith("VIOLATION")]
        with_input = [l for l in vio if "no-failing-input-found" not in l]
        if benign:
            verdict = "QUIET" if (p.returncode == 0 and not vio) else "ALARM " + " | ".join(vio or [p.stdout[-300:] + p.stderr[-300:]])
        else:
            verdict = "CAUGHT(with input)" if with_input else "CAUGHT(no input)" if vio else "MISSED"
        return (name, pid, verdict, p.returncode)
    except Exception as e:
        return (name, pid, "HARNESS-ERROR %r" % (e,), -1)
    finally:
        shutil.rmtree(w, ignore_errors=True)


rows = []
try:
    with cf.ThreadPoolExecutor(jobs) as ex:
        for r in ex.map(run, tasks):
            rows.append(r)
            print(r[0], r[1], r[2], "rc=%d" % r[3], flush=True)
finally:
    shutil.rmtree(scratch, ignore_errors=True)
json.dump(rows, open(os.path.join(V, "build", "partest-%s-last.json" % ("benign" if benign else "seeded")), "w"))
bad = [r for r in rows if (benign and r[2] != "QUIET") or (not benign and r[2] != "CAUGHT(with input)")]
print("%d tasks, %d not as expected" % (len(rows), len(bad)))
for r in bad:
    print("  ", *r)
