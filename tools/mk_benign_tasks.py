#!/venv/bin/python
"""mk_benign_tasks.py <batch-dir> <first-number> <flavour>: worktrees and TASK.md files for behaviour-preserving refactors.
flavour: 'cleanup' (renames, extracted helpers, control flow) or 'perf' (caching, precomputation, fewer passes, local
aliases, comprehension rewrites, lazy evaluation) or 'robust' (messages, hints, reprs, validation of what already failed) or 'modern' (f-strings, dataclass-like helpers, pathlib-free os.path
rewrites, typing clean-ups, early returns, enum lookups)."""
import json, os, subprocess, sys

base, first, flavour = sys.argv[1], int(sys.argv[2]), sys.argv[3]
V = os.path.dirname(os.path.dirname(os.path.abspath(__file__)))
props = {json.loads(l)["id"]: json.loads(l) for l in open(os.path.join(V, "properties.jsonl"))}
areas = [
    ("simfile/sm.py, simfile/base.py and simfile/_private/serializable.py (SM parsing and serialization)", ["C01", "C03", "C04"]),
    ("simfile/ssc.py and simfile/base.py (SSC parsing and serialization)", ["C02", "C03", "C04"]),
    ("simfile/__init__.py (load, loads, open, open_with_detected_encoding, opendir, openpack, mutate, _detect_ssc)", ["C03", "C05", "C06"]),
    ("simfile/notes/__init__.py (Note, NoteData: iteration, _get_columns, from_notes)", ["C07", "C08"]),
    ("simfile/notes/group.py and simfile/notes/count.py", ["C09", "C10"]),
    ("simfile/timing/engine.py (TimingEngine: state machine construction, time_at, beat_at, bpm_at, hittable) and simfile/notes/timed.py", ["C11", "C12", "C13"]),
    ("simfile/timing/__init__.py (Beat, BeatValue, BeatValues, TimingData), simfile/timing/_private/timingsource.py and simfile/timing/displaybpm.py", ["C14", "C15"]),
    ("simfile/convert.py", ["C16", "C17"]),
    ("simfile/_private/property.py, simfile/_private/generic.py and the property declarations in simfile/base.py, sm.py, ssc.py", ["C18"]),
    ("simfile/dir.py, simfile/assets.py, simfile/_private/extensions.py, simfile/_private/path.py, simfile/_private/nativeosfs.py", ["C19", "C20"]),
]
kinds = {
    "cleanup": "renaming private attributes/helpers/modules, extracting or inlining helper functions, restructuring control flow, moving a private function to another private module",
    "perf": "a performance-motivated change: caching or precomputing something that cannot be observed, doing one pass instead of two, hoisting loop invariants, replacing repeated attribute lookups by locals, building strings with join instead of repeated writes, using bisect/heapq/itertools differently but equivalently, lazy evaluation whose laziness cannot be observed",
    "robust": "a defensive or ergonomic change that leaves every documented behaviour alone: clearer exception messages (same exception classes raised in the same situations), docstring and type-hint edits, a __repr__ for a class that lacks one, tidying __all__ or __slots__, internal assertions that cannot fire on valid states, accepting os.PathLike where str paths are accepted, argument validation that only rejects what already failed (with the same exception class), reordering independent statements",
    "modern": "a modernisation: f-strings, early returns, enum/dict dispatch instead of if/elif chains, typing clean-ups, small private dataclass/NamedTuple helpers, comprehension rewrites, removing dead code, replacing mutable default arguments safely",
}
os.makedirs(base, exist_ok=True)
for i, (area, pids) in enumerate(areas):
    bid = "B%02d" % (first + i)
    wt, out = f"{base}/{bid}-wt", f"{base}/{bid}-out"
    os.makedirs(out, exist_ok=True)
    if not os.path.exists(wt):
        subprocess.run(["git", "-C", "/repo", "worktree", "add", "-q", "--detach", wt, "HEAD"], check=True)
    txt = f"""# Task: a behaviour-preserving change to part of a Python library

You work in a scratch git worktree of the library `simfile` at `{wt}` (write only there and in `{out}`).
Do not touch any other directory, do not commit, do not use `git stash`.

Make ONE realistic change to the code in: {area}.
Kind of change: {kinds[flavour]}.
It must be *behaviour-preserving for every public API call, every input and every call history*: something a maintainer
would merge without any user noticing. Be ambitious: at least 30 changed lines across at least two functions, including at
least one rename or move of a private (underscore / `_private`) name or one new private helper, and at least one real
restructuring. Public names, signatures, return types, exception types and all observable behaviour (for odd inputs such as
empty strings, None, unusual white space, duplicate keys, iterators passed where lists are usual, repeated and interleaved
calls on the same object, error cases) must stay exactly the same. Do not change public docstrings, add no dependencies,
do not edit tests.

These documented behaviours must in particular remain true (read them carefully):

""" + "\n\n".join(f"* {props[p]['title']}: {props[p]['statement']}" for p in pids) + f"""

Steps:
1. Make the change in `{wt}`.
2. Run the suite there: `cd {wt} && PYTHONPATH={wt} /venv/bin/python -m pytest -q -p no:cacheprovider --deselect simfile/tests/test_assets.py`
   - all must pass (check with `PYTHONPATH={wt} /venv/bin/python -c "import simfile; print(simfile.__file__)"` that the worktree copy is imported).
3. Write `{out}/equiv.py`: runs the original library (from `/repo`, in a subprocess with PYTHONPATH=/repo) and your copy
   (PYTHONPATH={wt}; if that directory is clean, rebuild the changed copy from /repo + patch.diff in a temp dir) on several hundred
   varied inputs and call histories for the touched functions, and exits 0 iff all observable results (values, types, exception
   types) are equal. Run it; it must exit 0. If it finds a difference, fix your change (not the script).
4. `cd {wt} && git add -A -N . && git diff > {out}/patch.diff` (so that new files are included), then write `{out}/meta.json` with keys
   `id` ("{bid}"), `summary`, `why_equivalent`.
5. Leave the worktree reverted: `git reset -q && git checkout -- . && git clean -fdq`; `git status` clean. Report briefly.
"""
    open(f"{out}/TASK.md", "w").write(txt)
    open(f"{out}/props.txt", "w").write(",".join(pids))
print("ok")
