From Coq Require Import List Arith Bool Lia.
Import ListNotations.
Require Import GroupSpike.
Definition kinds : list (option ntype) := [None; Some Tap; Some HoldHead; Some RollHead; Some Tail; Some Mine].
Fixpoint all_cells (n : nat) : list (list (option ntype)) :=
  match n with 0 => [[]] | S k => flat_map (fun rest => map (fun c => c :: rest) kinds) (all_cells k) end.
Definition COLS := 2.
Fixpoint to_notes (i : nat) (cells : list (option ntype)) : list note :=
  match cells with
  | [] => []
  | c :: r => match c with
              | Some t => {| beat := i / COLS; col := i mod COLS; ty := t |} :: to_notes (S i) r
              | None => to_notes (S i) r end
  end.
Definition item_eqb a b := match a, b with
  | Plain x, Plain y => note_eqb x y | Joined x t, Joined y u => note_eqb x y && (t =? u) | _, _ => false end.
Fixpoint list_eqb {A} (f : A -> A -> bool) (a b : list A) := match a, b with
  | [], [] => true | x :: r, y :: s => f x y && list_eqb f r s | _, _ => false end.
Definition res_eqb a b := match a, b with
  | Ok x, Ok y => list_eqb item_eqb x y | ErrOrphan x, ErrOrphan y => note_eqb x y | _, _ => false end.
Definition pols := [Raise; Keep; Drop].
Definition check (rows : nat) : nat * nat :=
  let streams := map (to_notes 0) (all_cells (rows * COLS)) in
  let bad := flat_map (fun ns => flat_map (fun ph => flat_map (fun pt =>
      if res_eqb (impl ph pt ns) (spec ph pt ns) then [] else [tt]) pols) pols) streams in
  (length streams, length bad).
Time Eval vm_compute in check 3.
