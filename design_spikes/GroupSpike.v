From Coq Require Import List Arith Bool Lia.
Import ListNotations.

Inductive ntype := Tap | HoldHead | RollHead | Tail | Mine.
Definition is_head t := match t with HoldHead | RollHead => true | _ => false end.
Definition is_tail t := match t with Tail => true | _ => false end.
Definition ntype_eqb a b := match a, b with
  | Tap, Tap | HoldHead, HoldHead | RollHead, RollHead | Tail, Tail | Mine, Mine => true | _, _ => false end.

Record note := { beat : nat; col : nat; ty : ntype }.
Definition note_eqb a b := (beat a =? beat b) && (col a =? col b) && ntype_eqb (ty a) (ty b).
Inductive item := Plain (n : note) | Joined (h : note) (tail_beat : nat).
Definition item_is (h : note) (i : item) := match i with Plain n => note_eqb n h | _ => false end.

Inductive policy := Raise | Keep | Drop.
Inductive res := Ok (l : list item) | ErrOrphan (n : note) | ErrInternal.

(* ---------- implementation model (mirrors join_heads_to_tails_) ---------- *)
Record st := { held : list (nat * note); buf : list item; out : list item (* reversed *) }.

Fixpoint lookup (c : nat) (h : list (nat * note)) : option note :=
  match h with [] => None | (c', n) :: r => if c' =? c then Some n else lookup c r end.
Fixpoint remove_col (c : nat) (h : list (nat * note)) :=
  match h with [] => [] | (c', n) :: r => if c' =? c then r else (c', n) :: remove_col c r end.
Definition is_held (h : list (nat * note)) (i : item) := existsb (fun p => item_is (snd p) i) h.

Fixpoint replace_first (h : note) (new : item) (b : list item) : option (list item) :=
  match b with
  | [] => None
  | i :: r => if item_is h i then Some (new :: r)
              else match replace_first h new r with Some r' => Some (i :: r') | None => None end
  end.
Fixpoint remove_first (h : note) (b : list item) : option (list item) :=
  match b with
  | [] => None
  | i :: r => if item_is h i then Some r
              else match remove_first h r with Some r' => Some (i :: r') | None => None end
  end.

(* pop from the front while the front is not a held note; None = IndexError *)
Fixpoint flush_until (h : list (nat * note)) (b : list item) (o : list item) : option (list item * list item) :=
  match b with
  | [] => None
  | i :: r => if is_held h i then Some (b, o) else flush_until h r (i :: o)
  end.

Inductive step_res := SOk (s : st) | SErr (n : note) | SInternal.

Definition orphan_head (ph : policy) (h : note) (s : st) : step_res :=
  match ph with
  | Raise => SErr h
  | Keep => SOk s
  | Drop => match remove_first h (buf s) with
            | Some b => SOk {| held := held s; buf := b; out := out s |} | None => SInternal end
  end.

Definition join (ph pt : policy) (mh : option note) (x : option note) (s : st) : step_res :=
  match mh with
  | None => match x with
            | None => SOk s
            | Some t => match pt with
                        | Raise => SErr t
                        | Keep => SOk {| held := held s; buf := buf s ++ [Plain t]; out := out s |}
                        | Drop => SOk s end
            end
  | Some h =>
      match x with
      | Some t => if is_tail (ty t)
                  then match replace_first h (Joined h (beat t)) (buf s) with
                       | Some b => SOk {| held := held s; buf := b; out := out s |} | None => SInternal end
                  else orphan_head ph h s
      | None => orphan_head ph h s
      end
  end.

Definition flush_step (s : st) : step_res :=
  match held s with
  | [] => SOk {| held := []; buf := []; out := rev_append (buf s) (out s) |}
  | _ => match flush_until (held s) (buf s) (out s) with
         | Some (b, o) => SOk {| held := held s; buf := b; out := o |} | None => SInternal end
  end.

Definition maybe_buffer (x : note) (s : st) : st :=
  match held s with
  | [] => {| held := []; buf := []; out := Plain x :: rev_append (buf s) (out s) |}
  | _ => {| held := held s; buf := buf s ++ [Plain x]; out := out s |}
  end.

Definition step (ph pt : policy) (s : st) (x : note) : step_res :=
  let r1 :=
    if (match lookup (col x) (held s) with Some _ => true | None => false end) || is_tail (ty x)
    then let mh := lookup (col x) (held s) in
         let s0 := {| held := remove_col (col x) (held s); buf := buf s; out := out s |} in
         match join ph pt mh (Some x) s0 with
         | SOk s1 => flush_step s1
         | e => e end
    else SOk s in
  match r1 with
  | SOk s1 =>
      let s2 := if is_head (ty x) then {| held := held s1 ++ [(col x, x)]; buf := buf s1; out := out s1 |} else s1 in
      SOk (if is_tail (ty x) then s2 else maybe_buffer x s2)
  | e => e
  end.

Fixpoint run (ph pt : policy) (s : st) (ns : list note) : step_res :=
  match ns with
  | [] => SOk s
  | x :: r => match step ph pt s x with SOk s' => run ph pt s' r | e => e end
  end.

Fixpoint cleanup (ph pt : policy) (hs : list (nat * note)) (s : st) : step_res :=
  match hs with
  | [] => SOk s
  | (_, h) :: r => match join ph pt (Some h) None s with SOk s' => cleanup ph pt r s' | e => e end
  end.

Definition impl (ph pt : policy) (ns : list note) : res :=
  match run ph pt {| held := []; buf := []; out := [] |} ns with
  | SOk s => match cleanup ph pt (held s) s with
             | SOk s' => Ok (rev_append (out s') (buf s'))
             | SErr n => ErrOrphan n | SInternal => ErrInternal end
  | SErr n => ErrOrphan n
  | SInternal => ErrInternal
  end.

(* ---------- declarative specification ---------- *)
Fixpoint next_in_col (c : nat) (ns : list note) : option note :=
  match ns with [] => None | n :: r => if col n =? c then Some n else next_in_col c r end.


Inductive ev := Emit (i : item) | Skip.

Definition orphan_item (p : policy) (n : note) : list item := match p with Drop => [] | _ => [Plain n] end.

(* what a head finally becomes, given the notes that follow it *)
Definition fate (ph : policy) (r : list note) (h : note) : list item :=
  match next_in_col (col h) r with
  | Some t => if is_tail (ty t) then [Joined h (beat t)] else orphan_item ph h
  | None => orphan_item ph h
  end.

Definition opens (open_ : list (nat * note)) (x : note) :=
  let open' := remove_col (col x) open_ in
  if is_head (ty x) then open' ++ [(col x, x)] else open'.

Fixpoint spec_items (ph pt : policy) (open_ : list (nat * note)) (ns : list note) : list item :=
  match ns with
  | [] => []
  | x :: r =>
    (if is_tail (ty x) then
       match lookup (col x) open_ with Some _ => [] | None => orphan_item pt x end
     else if is_head (ty x) then fate ph r x
     else [Plain x]) ++ spec_items ph pt (opens open_ x) r
  end.

Fixpoint spec_err (ph pt : policy) (open_ : list (nat * note)) (ns : list note) : option note :=
  match ns with
  | [] => match ph with Raise => match open_ with (_, h) :: _ => Some h | [] => None end | _ => None end
  | x :: r =>
    match lookup (col x) open_, is_tail (ty x) with
    | None, true => match pt with Raise => Some x | _ => spec_err ph pt (opens open_ x) r end
    | Some h, false => match ph with Raise => Some h | _ => spec_err ph pt (opens open_ x) r end
    | _, _ => spec_err ph pt (opens open_ x) r
    end
  end.

Definition spec (ph pt : policy) (ns : list note) : res :=
  match spec_err ph pt [] ns with
  | Some n => ErrOrphan n
  | None => Ok (spec_items ph pt [] ns)
  end.
