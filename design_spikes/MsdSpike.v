From Coq Require Import List NArith Bool Lia.
Import ListNotations.
Open Scope N_scope.

Definition char := N.
Definition str := list char.
Inductive cls := KHash | KColon | KSemi | KBsl | KSlash | KOther (nl : bool).
Definition classify (c : char) : cls :=
  if c =? 35 then KHash else if c =? 58 then KColon else if c =? 59 then KSemi
  else if c =? 92 then KBsl else if c =? 47 then KSlash
  else KOther ((c =? 10) || (c =? 13)).
Definition is_slash c := match classify c with KSlash => true | _ => false end.

Record pst := { lastnl : bool; done_ : list str; cur : str }.
Inductive res := Ok (ps : list (list str)) | ErrStray | ErrBackslash.
Definition finish (p : pst) : list str := rev (rev (cur p) :: done_ p).
Definition push (c : char) (l : bool) (p : pst) := {| lastnl := l; done_ := done_ p; cur := c :: cur p |}.
Inductive mode := Out (l : bool) | In (p : pst) | ComOut (l : bool) | ComIn (p : pst).
Definition head_is_slash (s : str) := match s with d :: _ => is_slash d | [] => false end.

Fixpoint go (s : str) (m : mode) (acc : list (list str)) : res :=
  match s with
  | [] => match m with
          | In p | ComIn p => Ok (rev (finish p :: acc))
          | _ => Ok (rev acc)
          end
  | c :: rest =>
    match m with
    | ComOut l => match classify c with
                  | KOther true => go rest (Out true) acc
                  | _ => go rest (ComOut l) acc end
    | ComIn p => match classify c with
                 | KOther true => go rest (In (push c true p)) acc
                 | _ => go rest (ComIn p) acc end
    | Out l =>
       match classify c with
       | KHash => go rest (In {| lastnl := l; done_ := []; cur := [] |}) acc
       | KBsl => match rest with
                 | [] => ErrBackslash
                 | d :: rest' => go rest' (Out (match classify d with KOther b => b | _ => false end)) acc
                 end
       | KSlash => if head_is_slash rest then go rest (ComOut l) acc else go rest (Out false) acc
       | KColon | KSemi => go rest (Out false) acc
       | KOther b => go rest (Out b) acc
       end
    | In p =>
       match classify c with
       | KHash => if lastnl p then go rest (In {| lastnl := lastnl p; done_ := []; cur := [] |}) (finish p :: acc)
                  else go rest (In (push c false p)) acc
       | KColon => go rest (In {| lastnl := lastnl p; done_ := rev (cur p) :: done_ p; cur := [] |}) acc
       | KSemi => go rest (Out (lastnl p)) (finish p :: acc)
       | KBsl => match rest with
                 | [] => ErrBackslash
                 | d :: rest' => go rest' (In (push d (lastnl p) p)) acc
                 end
       | KSlash => if head_is_slash rest then go rest (ComIn p) acc else go rest (In (push c false p)) acc
       | KOther b => go rest (In (push c b p)) acc
       end
    end
  end.
Definition parse (s : str) := go s (Out false) [].

Definition cBSL : char := 92.
Fixpoint esc (s : str) : str :=
  match s with
  | [] => []
  | c :: rest =>
    match classify c with
    | KBsl | KColon | KSemi => cBSL :: c :: esc rest
    | KSlash => match rest with
                | d :: rest' => if is_slash d then cBSL :: c :: d :: esc rest' else c :: esc rest
                | [] => c :: esc rest
                end
    | _ => c :: esc rest
    end
  end.

Fixpoint safe (l : bool) (s : str) : bool :=
  match s with
  | [] => true
  | c :: rest =>
    match classify c with
    | KHash => negb l && safe false rest
    | KBsl | KColon | KSemi => safe l rest
    | KSlash => match rest with
                | d :: rest' => if is_slash d then negb (head_is_slash rest') && safe false rest' else safe false rest
                | [] => true
                end
    | KOther b => safe b rest
    end
  end.
Fixpoint nl_after (l : bool) (s : str) : bool :=
  match s with
  | [] => l
  | c :: rest =>
    match classify c with
    | KHash => nl_after false rest
    | KBsl | KColon | KSemi => nl_after l rest
    | KSlash => match rest with
                | d :: rest' => if is_slash d then nl_after false rest' else nl_after false rest
                | [] => false
                end
    | KOther b => nl_after b rest
    end
  end.

Lemma cls_bsl : classify cBSL = KBsl. Proof. reflexivity. Qed.

Lemma head_esc_slash : forall s k, head_is_slash k = false -> head_is_slash s = false -> head_is_slash (esc s ++ k) = false.
Proof.
  intros [|d r] k Hk Hs; [exact Hk|]. cbn [esc]. unfold head_is_slash, is_slash in Hs.
  destruct (classify d) eqn:E; try discriminate; cbn [app head_is_slash]; unfold is_slash; try rewrite E; try rewrite cls_bsl; reflexivity.
Qed.

Lemma go_esc : forall (n:nat) comp, (length comp <= n)%nat -> forall p k acc,
  safe (lastnl p) comp = true -> head_is_slash k = false ->
  go (esc comp ++ k) (In p) acc =
  go k (In {| lastnl := nl_after (lastnl p) comp; done_ := done_ p; cur := rev comp ++ cur p |}) acc.
Proof.
  induction n as [|n IH]; intros comp Hlen p k acc Hs Hk.
  - destruct comp; [|simpl in Hlen; lia]. destruct p; reflexivity.
  - destruct comp as [|c rest]. { destruct p; reflexivity. }
    simpl in Hlen. assert (Hr : (length rest <= n)%nat) by lia.
    destruct p as [l dn0 cu]. cbn [lastnl done_ cur] in *.
    cbn [esc safe nl_after] in *.
    destruct (classify c) eqn:E.
    + (* hash *) apply andb_prop in Hs as [Hl Hs]. apply negb_true_iff in Hl. subst l.
      cbn [app go]. rewrite E. cbn [lastnl]. rewrite IH; auto.
      cbn [push lastnl done_ cur rev]. rewrite <- app_assoc. reflexivity.
    + cbn [app go]. rewrite cls_bsl. rewrite IH; auto. cbn [push lastnl done_ cur rev]. rewrite <- app_assoc. reflexivity.
    + cbn [app go]. rewrite cls_bsl. rewrite IH; auto. cbn [push lastnl done_ cur rev]. rewrite <- app_assoc. reflexivity.
    + cbn [app go]. rewrite cls_bsl. rewrite IH; auto. cbn [push lastnl done_ cur rev]. rewrite <- app_assoc. reflexivity.
    + (* slash *) destruct rest as [|d rest'].
      * cbn [esc app go]. rewrite E, Hk. destruct k; reflexivity.
      * destruct (is_slash d) eqn:E6.
        -- apply andb_prop in Hs as [Hh Hs]. apply negb_true_iff in Hh.
           cbn [app go]. rewrite cls_bsl.
           assert (Hd : classify d = KSlash) by (unfold is_slash in E6; destruct (classify d); congruence).
           rewrite Hd. rewrite head_esc_slash; auto.
           simpl in Hr. rewrite IH; auto; [|lia]. cbn [push lastnl done_ cur rev].
           rewrite <- !app_assoc. reflexivity.
        -- cbn [app go]. rewrite E.
           replace (head_is_slash (esc (d :: rest') ++ k)) with false.
           2:{ symmetry. apply head_esc_slash; auto. }
           rewrite IH; auto. cbn [push lastnl done_ cur rev]. rewrite <- !app_assoc. reflexivity.
    + cbn [app go]. rewrite E. rewrite IH; auto. cbn [push lastnl done_ cur rev]. rewrite <- app_assoc. reflexivity.
Qed.
Print Assumptions go_esc.
