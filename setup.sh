#!/bin/sh
# Offline build of the framework: tables from /repo, full .vo build, extraction, runner.
cd "$(dirname "$0")" || exit 1
export PYTHONPATH="${VERIF_REPO:-/repo}:$(pwd)" PYTHONHASHSEED=0 PYTHONWARNINGS=ignore
mkdir -p build evidence replays coq/Generated
/venv/bin/python harness/unitables.py >/dev/null || exit 1
/venv/bin/python harness/tables.py || exit 1
cd coq && coq_makefile -f _CoqProject -o Makefile >/dev/null && timeout 3000 make -j16 >../build/setup-make.log 2>&1 || { tail -30 ../build/setup-make.log; exit 1; }
cd .. && /venv/bin/python -c "from harness import lib; lib.build_runner()" || exit 1
echo setup ok
